"""Custom probes of known findings (python -m vf.probes <name>): exit 1 when the
finding still reproduces on the current tree, 0 when it does not."""
import sys

from . import core


def multiword_keyword():
    core.setup_path()
    import asn1tools
    base = asn1tools.parse_string('M DEFINITIONS ::= BEGIN A ::= OCTET STRING END')
    for sep in ['  ', '\n', '\t', ' -- c -- ', ' /* c */ ']:
        try:
            got = asn1tools.parse_string('M DEFINITIONS ::= BEGIN A ::= OCTET{}STRING END'.format(sep))
        except asn1tools.ParseError:
            return True
        if got != base:
            return True
    return False


def recursive_across_modules():
    core.setup_path()
    import asn1tools
    one = ('M DEFINITIONS AUTOMATIC TAGS ::= BEGIN A ::= SEQUENCE { b B OPTIONAL, x INTEGER } '
           'B ::= SEQUENCE { a A OPTIONAL } END')
    two = ('M DEFINITIONS AUTOMATIC TAGS ::= BEGIN IMPORTS B FROM N; A ::= SEQUENCE { b B OPTIONAL, x INTEGER } END '
           'N DEFINITIONS AUTOMATIC TAGS ::= BEGIN IMPORTS A FROM M; B ::= SEQUENCE { a A OPTIONAL } END')
    v = {'x': 1, 'b': {'a': {'x': 2}}}
    ref = asn1tools.compile_string(one, 'uper').encode('A', v)
    try:
        got = asn1tools.compile_string(two, 'uper').encode('A', v)
    except Exception:
        return True
    return got != ref


def error_path_repeated_name():
    core.setup_path()
    import asn1tools
    s = asn1tools.compile_string('M DEFINITIONS AUTOMATIC TAGS ::= BEGIN A ::= SEQUENCE { n A OPTIONAL, d OCTET STRING (SIZE (3)) } END')
    v = {'n': {'n': {'d': b'12'}, 'd': b'123'}, 'd': b'123'}
    try:
        s.encode('A', v, check_constraints=True)
    except asn1tools.ConstraintsError as e:
        return not str(e).startswith('A.n.n.d: ')
    return True


def _c_compiles(text, codec):
    """generate C for `text` and compile it with gcc -std=c99 -> True/False (None: the generator refused)."""
    import os
    import tempfile
    import shutil
    import subprocess
    core.setup_path()
    import asn1tools
    from asn1tools.source import c as capi
    spec = asn1tools.compile_string(text, codec)
    try:
        header, source, _, _ = capi.generate(spec, codec, 'ns', 'gen.h', 'gen.c', 'fuzz.c')
    except asn1tools.Error:
        return None
    d = tempfile.mkdtemp(prefix='vf-probe-')
    try:
        with open(os.path.join(d, 'gen.h'), 'w') as f:
            f.write(header)
        with open(os.path.join(d, 'gen.c'), 'w') as f:
            f.write(source)
        rc = subprocess.run(['gcc', '-std=c99', '-c', 'gen.c', '-o', 'gen.o'], cwd=d, stdout=subprocess.PIPE,
                            stderr=subprocess.PIPE, timeout=120).returncode
        return rc == 0
    finally:
        shutil.rmtree(d, ignore_errors=True)


def oer_c_addition_length_code():
    """OER C: the code that computes the length of an extension addition is only right for primitive inline types."""
    texts = ['M DEFINITIONS AUTOMATIC TAGS ::= BEGIN E ::= ENUMERATED { a, b } S ::= SEQUENCE { a BOOLEAN, ..., e E } END',
             'M DEFINITIONS AUTOMATIC TAGS ::= BEGIN S ::= SEQUENCE { a BOOLEAN, ..., l SEQUENCE (SIZE (0..2)) OF OCTET STRING (SIZE (0..3)) } END']
    return any(_c_compiles(t, 'oer') is False for t in texts)


def oer_c_empty_marker_not_skipped():
    """OER C generated for SEQUENCE { a BOOLEAN, ... } must consume 80 ff 02 07 80 01 05 (a newer version's addition) completely."""
    import os
    import tempfile
    import shutil
    import subprocess
    core.setup_path()
    import asn1tools
    from asn1tools.source import c as capi
    spec = asn1tools.compile_string('M DEFINITIONS AUTOMATIC TAGS ::= BEGIN S ::= SEQUENCE { a BOOLEAN, ... } END', 'oer')
    header, source, _, _ = capi.generate(spec, 'oer', 'ns', 'gen.h', 'gen.c', 'fuzz.c')
    d = tempfile.mkdtemp(prefix='vf-probe-')
    try:
        for n, t in (('gen.h', header), ('gen.c', source),
                     ('main.c', '#include <stdio.h>\n#include "gen.h"\nint main(void) { struct ns_m_s_t s; '
                                'const uint8_t in[] = {0x80, 0xff, 0x02, 0x07, 0x80, 0x01, 0x05}; '
                                'printf("%ld\\n", (long)ns_m_s_decode(&s, in, sizeof(in))); return 0; }\n')):
            with open(os.path.join(d, n), 'w') as f:
                f.write(t)
        if subprocess.run(['gcc', '-std=c99', 'gen.c', 'main.c', '-o', 'p'], cwd=d, stdout=subprocess.PIPE,
                          stderr=subprocess.PIPE, timeout=120).returncode != 0:
            return True
        out = subprocess.run(['./p'], cwd=d, stdout=subprocess.PIPE, timeout=20).stdout.decode().strip()
        return out != '7'
    finally:
        shutil.rmtree(d, ignore_errors=True)


def ber_choice_alternatives_of_one_recursive_type():
    """Two texts that differ only in the order of the assignments decode the same BER octets to different values."""
    import json
    import os
    core.setup_path()
    import asn1tools
    with open(os.path.join(core.VERIF, 'findings', 'data', 'ber-choice-alternatives-of-one-recursive-type.json')) as f:
        w = json.load(f)
    v = core.unjson(w['value'])
    try:
        s1 = asn1tools.compile_string(w['original'], 'ber')
        s2 = asn1tools.compile_string(w['arrangement'], 'ber')
        e = s1.encode(w['type'], v)
        return s1.decode(w['type'], e) != s2.decode(w['type'], e)
    except Exception:
        return True


def ber_retagged_reference_to_recursive_explicit_type():
    """BER round trip of the recorded value fails (DecodeTagError or another value)."""
    import json
    import os
    core.setup_path()
    import asn1tools
    with open(os.path.join(core.VERIF, 'findings', 'data', 'ber-retagged-reference-to-recursive-explicit-type.json')) as f:
        w = json.load(f)
    v = core.unjson(w['value'])
    try:
        s = asn1tools.compile_string(w['text'], w['codec'])
        return s.decode(w['type'], s.encode(w['type'], v)) != v
    except Exception:
        return True


if __name__ == '__main__':
    sys.exit(1 if globals()[sys.argv[1]]() else 0)
