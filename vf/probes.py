"""Custom probes of known findings (python -m vf.probes <name>): exit 1 when the
finding still reproduces on the current tree, 0 when it does not."""
import sys

from . import core


def multiword_keyword():
    core.setup_path()
    import asn1tools
    base = asn1tools.parse_string('M DEFINITIONS ::= BEGIN A ::= OCTET STRING END')
    for sep in ['  ', '\n', '\t', ' -- c -- ', ' /* c */ ']:
        try:
            got = asn1tools.parse_string('M DEFINITIONS ::= BEGIN A ::= OCTET{}STRING END'.format(sep))
        except asn1tools.ParseError:
            return True
        if got != base:
            return True
    return False


if __name__ == '__main__':
    sys.exit(1 if globals()[sys.argv[1]]() else 0)
