"""Custom probes of known findings (python -m vf.probes <name>): exit 1 when the
finding still reproduces on the current tree, 0 when it does not."""
import sys

from . import core


def multiword_keyword():
    core.setup_path()
    import asn1tools
    base = asn1tools.parse_string('M DEFINITIONS ::= BEGIN A ::= OCTET STRING END')
    for sep in ['  ', '\n', '\t', ' -- c -- ', ' /* c */ ']:
        try:
            got = asn1tools.parse_string('M DEFINITIONS ::= BEGIN A ::= OCTET{}STRING END'.format(sep))
        except asn1tools.ParseError:
            return True
        if got != base:
            return True
    return False


def recursive_across_modules():
    core.setup_path()
    import asn1tools
    one = ('M DEFINITIONS AUTOMATIC TAGS ::= BEGIN A ::= SEQUENCE { b B OPTIONAL, x INTEGER } '
           'B ::= SEQUENCE { a A OPTIONAL } END')
    two = ('M DEFINITIONS AUTOMATIC TAGS ::= BEGIN IMPORTS B FROM N; A ::= SEQUENCE { b B OPTIONAL, x INTEGER } END '
           'N DEFINITIONS AUTOMATIC TAGS ::= BEGIN IMPORTS A FROM M; B ::= SEQUENCE { a A OPTIONAL } END')
    v = {'x': 1, 'b': {'a': {'x': 2}}}
    ref = asn1tools.compile_string(one, 'uper').encode('A', v)
    try:
        got = asn1tools.compile_string(two, 'uper').encode('A', v)
    except Exception:
        return True
    return got != ref


def error_path_repeated_name():
    core.setup_path()
    import asn1tools
    s = asn1tools.compile_string('M DEFINITIONS AUTOMATIC TAGS ::= BEGIN A ::= SEQUENCE { n A OPTIONAL, d OCTET STRING (SIZE (3)) } END')
    v = {'n': {'n': {'d': b'12'}, 'd': b'123'}, 'd': b'123'}
    try:
        s.encode('A', v, check_constraints=True)
    except asn1tools.ConstraintsError as e:
        return not str(e).startswith('A.n.n.d: ')
    return True


if __name__ == '__main__':
    sys.exit(1 if globals()[sys.argv[1]]() else 0)
