"""Independent readers for the text encodings (C02, C20): strict JSON + JER reader,
expat-based BASIC-XER reader, RFC 3641 GSER reader.  All are type-directed by my
AST and return values in the Python convention of the library so that they can be
compared with the abstract equality of vf.asn.values.
"""

import re
import json
import binascii
import xml.parsers.expat

from ..asn.ast import STRING_KINDS, TIME_KINDS, all_comps
from ..asn import values as V


class ReadError(Exception):
    """The document is not a well-formed / valid text encoding of a value of the type."""


class Unreadable(Exception):
    """My reader does not cover this construct (counted, not a verdict)."""


# ---------------------------------------------------------------------------
# strict JSON (RFC 8259)

def strict_json(text):
    def bad_constant(name):
        raise ReadError('non-JSON constant ' + name)

    def pairs(items):
        d = {}
        for k, v in items:
            if k in d:
                raise ReadError('duplicate member name ' + k)
            d[k] = v
        return d
    try:
        s = text.decode('utf-8', 'strict')
    except UnicodeDecodeError as e:
        raise ReadError('not UTF-8: {}'.format(e))
    try:
        doc = json.loads(s, parse_constant=bad_constant, object_pairs_hook=pairs, strict=True)
    except ValueError as e:
        raise ReadError('not JSON: {}'.format(e))

    def walk(o):
        if isinstance(o, str):
            if any(0xd800 <= ord(ch) <= 0xdfff for ch in o):
                raise ReadError('lone surrogate in string')
        elif isinstance(o, dict):
            for k, v in o.items():
                walk(k)
                walk(v)
        elif isinstance(o, list):
            for v in o:
                walk(v)
    walk(doc)
    return doc


def jer_read(env, mod, t, doc, numeric=False):
    r = env.res(mod, t)
    b = r.base
    k = b.kind
    if k == 'BOOLEAN':
        if not isinstance(doc, bool):
            raise ReadError('BOOLEAN expects true/false')
        return doc
    if k == 'INTEGER':
        if isinstance(doc, bool) or not isinstance(doc, int):
            raise ReadError('INTEGER expects a JSON integer number')
        return doc
    if k == 'REAL':
        if isinstance(doc, str):
            m = {'INF': float('inf'), '-INF': float('-inf'), 'NaN': float('nan'), '-0': -0.0}
            if doc not in m:
                raise ReadError('REAL string ' + doc)
            return m[doc]
        if isinstance(doc, bool) or not isinstance(doc, (int, float)):
            raise ReadError('REAL expects a number')
        return float(doc)
    if k == 'NULL':
        if doc is not None:
            raise ReadError('NULL expects null')
        return None
    if k == 'BIT STRING':
        if isinstance(doc, dict):
            if set(doc) != {'value', 'length'} or not isinstance(doc['value'], str) or not isinstance(doc['length'], int):
                raise ReadError('BIT STRING object form')
            data = _hex(doc['value'])
            if (doc['length'] + 7) // 8 != len(data):
                raise ReadError('BIT STRING length does not match value')
            return (data, doc['length'])
        if isinstance(doc, str):
            if r.size is None or r.size.lo != r.size.hi:
                raise ReadError('hex-only BIT STRING form needs a fixed size')
            data = _hex(doc)
            if (r.size.lo + 7) // 8 != len(data):
                raise ReadError('BIT STRING fixed size does not match value')
            return (data, r.size.lo)
        raise ReadError('BIT STRING form')
    if k == 'OCTET STRING':
        if not isinstance(doc, str):
            raise ReadError('OCTET STRING expects a hex string')
        return _hex(doc)
    if k == 'OBJECT IDENTIFIER':
        if not isinstance(doc, str) or not re.match(r'^\d+(\.\d+)+$', doc):
            raise ReadError('OBJECT IDENTIFIER form')
        return doc
    if k == 'ENUMERATED':
        if numeric:
            if isinstance(doc, bool) or not isinstance(doc, int):
                raise ReadError('numeric ENUMERATED expects a number')
            return doc
        if not isinstance(doc, str):
            raise ReadError('ENUMERATED expects a string')
        return doc
    if k in STRING_KINDS:
        if not isinstance(doc, str):
            raise ReadError('character string expects a string')
        return doc
    if k in TIME_KINDS:
        raise Unreadable('time types')
    if k in ('SEQUENCE', 'SET'):
        if not isinstance(doc, dict):
            raise ReadError('SEQUENCE expects an object')
        out = {}
        names = {c.name: c for c in all_comps(b)}
        for key, val in doc.items():
            if key not in names:
                raise ReadError('unknown member ' + key)
            out[key] = jer_read(env, r.mod, names[key].t, val, numeric)
        for c in all_comps(b):
            if c.name not in out and not c.optional and not c.has_default:
                raise ReadError('mandatory member missing: ' + c.name)
        return out
    if k == 'CHOICE':
        if not isinstance(doc, dict) or len(doc) != 1:
            raise ReadError('CHOICE expects a single-member object')
        key = list(doc)[0]
        for c in all_comps(b):
            if c.name == key:
                return (key, jer_read(env, r.mod, c.t, doc[key], numeric))
        raise ReadError('unknown alternative ' + key)
    if k in ('SEQUENCE OF', 'SET OF'):
        if not isinstance(doc, list):
            raise ReadError('OF expects an array')
        return [jer_read(env, r.mod, b.elem, x, numeric) for x in doc]
    raise Unreadable(k)


def _hex(s):
    if len(s) % 2 or not re.match(r'^[0-9A-Fa-f]*$', s):
        raise ReadError('not a hex string: ' + s[:20])
    return binascii.unhexlify(s)


# ---------------------------------------------------------------------------
# XML (expat) + BASIC-XER reader

class XNode(object):
    __slots__ = ('name', 'children', 'text')

    def __init__(self, name):
        self.name = name
        self.children = []
        self.text = ''


def xml_parse(data):
    """Well-formedness by expat (called directly) -> element tree of XNode."""
    p = xml.parsers.expat.ParserCreate()
    root = [None]
    stack = []

    def start(name, attrs):
        n = XNode(name)
        if attrs:
            raise ReadError('unexpected attribute')
        if stack:
            stack[-1].children.append(n)
        else:
            root[0] = n
        stack.append(n)

    def end(name):
        stack.pop()

    def chars(s):
        if stack:
            stack[-1].text += s
    p.StartElementHandler = start
    p.EndElementHandler = end
    p.CharacterDataHandler = chars
    try:
        p.Parse(data, True)
    except xml.parsers.expat.ExpatError as e:
        raise ReadError('not well-formed XML: {}'.format(e))
    return root[0]


XML_ILLEGAL = re.compile('[\x00-\x08\x0b\x0c\x0e-\x1f￾￿\ud800-\udfff]')


def xml_legal(s):
    return not XML_ILLEGAL.search(s)


def _only_ws(s):
    return s.strip(' \t\r\n') == ''


VALUE_FORM_KINDS = ('BOOLEAN', 'ENUMERATED', 'CHOICE', 'NULL')


def xer_read(env, mod, t, node):
    """node = the element that represents the value (already matched by name by the caller)."""
    r = env.res(mod, t)
    b = r.base
    k = b.kind
    if k == 'BOOLEAN':
        if len(node.children) != 1 or node.children[0].name not in ('true', 'false') or not _only_ws(node.text):
            raise ReadError('BOOLEAN expects <true/> or <false/>')
        return node.children[0].name == 'true'
    if k == 'INTEGER':
        if node.children or not re.match(r'^\s*-?\d+\s*$', node.text):
            raise ReadError('INTEGER text: ' + node.text[:20])
        return int(node.text)
    if k == 'REAL':
        if len(node.children) == 1 and _only_ws(node.text):
            m = {'PLUS-INFINITY': float('inf'), 'MINUS-INFINITY': float('-inf'), 'NOT-A-NUMBER': float('nan')}
            if node.children[0].name not in m:
                raise ReadError('REAL element ' + node.children[0].name)
            return m[node.children[0].name]
        txt = node.text.strip()
        if node.children or not re.match(r'^-?\d+(\.\d*)?([eE][-+]?\d+)?$', txt):
            raise ReadError('REAL text: ' + txt[:30])
        return float(txt)
    if k == 'NULL':
        if node.children or not _only_ws(node.text):
            raise ReadError('NULL expects an empty element')
        return None
    if k == 'BIT STRING':
        txt = re.sub(r'\s', '', node.text)
        if node.children or not re.match(r'^[01]*$', txt):
            raise ReadError('BIT STRING text')
        n = len(txt)
        data = bytearray((n + 7) // 8)
        for i, ch in enumerate(txt):
            if ch == '1':
                data[i // 8] |= 0x80 >> (i % 8)
        return (bytes(data), n)
    if k == 'OCTET STRING':
        txt = re.sub(r'\s', '', node.text)
        if node.children:
            raise ReadError('OCTET STRING children')
        return _hex(txt)
    if k == 'OBJECT IDENTIFIER':
        txt = node.text.strip()
        if node.children or not re.match(r'^\d+(\.\d+)+$', txt):
            raise ReadError('OBJECT IDENTIFIER text')
        return txt
    if k == 'ENUMERATED':
        if len(node.children) != 1 or not _only_ws(node.text) or node.children[0].children:
            raise ReadError('ENUMERATED expects one empty element')
        return node.children[0].name
    if k in STRING_KINDS:
        if node.children:
            raise ReadError('character string with child elements')
        return node.text
    if k in TIME_KINDS:
        raise Unreadable('time types')
    if k in ('SEQUENCE', 'SET'):
        if not _only_ws(node.text):
            raise ReadError('text inside SEQUENCE')
        out = {}
        names = {c.name.replace(' ', '_'): c for c in all_comps(b)}
        for ch in node.children:
            if ch.name not in names:
                raise ReadError('unknown member element ' + ch.name)
            if ch.name in out:
                raise ReadError('member element twice ' + ch.name)
            out[names[ch.name].name] = xer_read(env, r.mod, names[ch.name].t, ch)
        for c in all_comps(b):
            if c.name not in out and not c.optional and not c.has_default:
                raise ReadError('mandatory member missing: ' + c.name)
        return out
    if k == 'CHOICE':
        if len(node.children) != 1 or not _only_ws(node.text):
            raise ReadError('CHOICE expects one child element')
        ch = node.children[0]
        for c in all_comps(b):
            if c.name == ch.name:
                return (c.name, xer_read(env, r.mod, c.t, ch))
        raise ReadError('unknown alternative element ' + ch.name)
    if k in ('SEQUENCE OF', 'SET OF'):
        if not _only_ws(node.text):
            raise ReadError('text inside SEQUENCE OF')
        er = env.res(r.mod, b.elem)
        out = []
        for ch in node.children:
            ek = er.base.kind
            if ek == 'BOOLEAN':
                if ch.name not in ('true', 'false') or ch.children:
                    raise ReadError('BOOLEAN list element form')
                out.append(ch.name == 'true')
            elif ek == 'ENUMERATED':
                if ch.children:
                    raise ReadError('ENUMERATED list element form')
                out.append(ch.name)
            elif ek == 'CHOICE':
                found = None
                for c in all_comps(er.base):
                    if c.name == ch.name:
                        found = c
                if found is None:
                    # alternative form: <TypeName><alt>..</alt></TypeName>
                    out.append(xer_read(env, r.mod, b.elem, ch))
                else:
                    out.append((found.name, xer_read(env, er.mod, found.t, ch)))
            else:
                out.append(xer_read(env, r.mod, b.elem, ch))
        return out
    raise Unreadable(k)


# ---------------------------------------------------------------------------
# GSER (RFC 3641)

class GserReader(object):

    def __init__(self, text):
        self.s = text
        self.i = 0

    def ws(self):
        while self.i < len(self.s) and self.s[self.i] in ' \n':
            self.i += 1

    def peek(self):
        return self.s[self.i] if self.i < len(self.s) else ''

    def expect(self, lit):
        self.ws()
        if not self.s.startswith(lit, self.i):
            raise ReadError('expected {!r} at {}: {!r}'.format(lit, self.i, self.s[self.i:self.i + 20]))
        self.i += len(lit)

    def match(self, rx):
        self.ws()
        m = re.compile(rx).match(self.s, self.i)
        if not m:
            raise ReadError('expected /{}/ at {}: {!r}'.format(rx, self.i, self.s[self.i:self.i + 25]))
        self.i = m.end()
        return m.group(0)

    def string(self):
        self.ws()
        if self.peek() != '"':
            raise ReadError('expected a StringValue at {}'.format(self.i))
        self.i += 1
        out = []
        while True:
            if self.i >= len(self.s):
                raise ReadError('unterminated StringValue')
            ch = self.s[self.i]
            if ch == '"':
                if self.s.startswith('""', self.i):
                    out.append('"')
                    self.i += 2
                    continue
                self.i += 1
                return ''.join(out)
            out.append(ch)
            self.i += 1


IDENT = r'[a-z][A-Za-z0-9]*(-[A-Za-z0-9]+)*'
REALNUM = r'-?(0\.0*[1-9][0-9]*|[1-9][0-9]*(\.[0-9]*)?)E(0|-?[1-9][0-9]*)'


def gser_read_document(env, mod, name, t, text, numeric=False):
    rd = GserReader(text)
    rd.match(IDENT)                         # value name
    rd.ws()
    got = rd.match(r'[A-Z][A-Za-z0-9]*(-[A-Za-z0-9]+)*')
    if got != name:
        raise ReadError('type name {} != {}'.format(got, name))
    rd.expect('::=')
    v = gser_read(env, mod, t, rd, numeric)
    rd.ws()
    if rd.i != len(rd.s):
        raise ReadError('trailing text after the value: {!r}'.format(rd.s[rd.i:rd.i + 30]))
    return v


def gser_read(env, mod, t, rd, numeric=False):
    r = env.res(mod, t)
    b = r.base
    k = b.kind
    if k == 'BOOLEAN':
        return rd.match(r'TRUE|FALSE') == 'TRUE'
    if k == 'INTEGER':
        return int(rd.match(r'-?(0|[1-9][0-9]*)(?![0-9A-Za-z.])'))
    if k == 'REAL':
        rd.ws()
        for lit, val in (('PLUS-INFINITY', float('inf')), ('MINUS-INFINITY', float('-inf'))):
            if rd.s.startswith(lit, rd.i):
                rd.i += len(lit)
                return val
        m = re.compile(REALNUM + r'(?![0-9A-Za-z.+-])').match(rd.s, rd.i)
        if m:
            rd.i = m.end()
            mant, exp = m.group(0).split('E')
            return float(mant + 'e' + exp)
        if re.compile(r'0(?![0-9A-Za-z.+-])').match(rd.s, rd.i):
            rd.i += 1
            return 0.0
        raise ReadError('RealValue at {}: {!r}'.format(rd.i, rd.s[rd.i:rd.i + 30]))
    if k == 'NULL':
        rd.match(r'NULL')
        return None
    if k == 'BIT STRING':
        txt = rd.match(r"'[01]*'B")
        bits = txt[1:-2]
        n = len(bits)
        data = bytearray((n + 7) // 8)
        for i, ch in enumerate(bits):
            if ch == '1':
                data[i // 8] |= 0x80 >> (i % 8)
        return (bytes(data), n)
    if k == 'OCTET STRING':
        txt = rd.match(r"'([0-9A-F][0-9A-F])*'H")
        return binascii.unhexlify(txt[1:-2])
    if k == 'OBJECT IDENTIFIER':
        return rd.match(r'\d+(\.\d+)+')
    if k == 'ENUMERATED':
        if numeric:
            # RFC 3641: EnumeratedValue = identifier; the numeric convention of the library still prints the name
            nm = rd.match(IDENT)
            return V.enum_number(b, nm)
        return rd.match(IDENT)
    if k in STRING_KINDS:
        return rd.string()
    if k in TIME_KINDS:
        raise Unreadable('time types')
    if k in ('SEQUENCE', 'SET'):
        rd.expect('{')
        out = {}
        names = {c.name: c for c in all_comps(b)}
        rd.ws()
        if rd.peek() == '}':
            rd.i += 1
        else:
            while True:
                nm = rd.match(IDENT)
                if nm not in names or nm in out:
                    raise ReadError('unknown or repeated component ' + nm)
                out[nm] = gser_read(env, r.mod, names[nm].t, rd, numeric)
                rd.ws()
                if rd.peek() == ',':
                    rd.i += 1
                    continue
                rd.expect('}')
                break
        for c in all_comps(b):
            if c.name not in out and not c.optional and not c.has_default:
                raise ReadError('mandatory component missing: ' + c.name)
        return out
    if k == 'CHOICE':
        nm = rd.match(IDENT)
        rd.expect(':')
        for c in all_comps(b):
            if c.name == nm:
                return (nm, gser_read(env, r.mod, c.t, rd, numeric))
        raise ReadError('unknown alternative ' + nm)
    if k in ('SEQUENCE OF', 'SET OF'):
        rd.expect('{')
        out = []
        rd.ws()
        if rd.peek() == '}':
            rd.i += 1
            return out
        while True:
            out.append(gser_read(env, r.mod, b.elem, rd, numeric))
            rd.ws()
            if rd.peek() == ',':
                rd.i += 1
                continue
            rd.expect('}')
            return out
    raise Unreadable(k)
