"""Independent X.690 model: TLV reader/writer, DER encoder driven by my AST,
BER variant (re-serialisation) writer.  No code shared with asn1tools."""

import math
import struct

from ..asn.ast import (CLASS_BITS, CLASS_ORDER, UNIVERSAL, APPLICATION, CONTEXT, PRIVATE, STRING_KINDS,
                       TIME_KINDS, all_comps, NODEFAULT)
from ..asn import tagging
from ..asn import values as V

CLASSES = [UNIVERSAL, APPLICATION, CONTEXT, PRIVATE]


class Undecided(Exception):
    """The model declines to state the standard's answer for this case."""


class Malformed(Exception):
    pass


# ---------------------------------------------------------------------------
# TLV layer

def enc_ident(cls, constructed, num):
    first = CLASS_BITS[cls] | (0x20 if constructed else 0)
    if num < 31:
        return bytes([first | num])
    out = [num & 0x7f]
    num >>= 7
    while num:
        out.append(0x80 | (num & 0x7f))
        num >>= 7
    return bytes([first | 0x1f]) + bytes(reversed(out))


def enc_len(n, pad=0):
    """Definite length; pad > 0 forces the long form with `pad` length octets."""
    if pad == 0:
        if n <= 127:
            return bytes([n])
        k = (n.bit_length() + 7) // 8
        return bytes([0x80 | k]) + n.to_bytes(k, 'big')
    k = max(pad, (n.bit_length() + 7) // 8, 1)
    return bytes([0x80 | k]) + n.to_bytes(k, 'big')


def tlv(cls, constructed, num, content):
    return enc_ident(cls, constructed, num) + enc_len(len(content)) + content


class Node(object):
    __slots__ = ('cls', 'constructed', 'num', 'content', 'children', 'indefinite', 'idlen', 'lenlen',
                 'minimal_len', 'start', 'end', 'info')

    def __init__(self):
        self.children = None
        self.content = None
        self.indefinite = False
        self.info = None

    def __repr__(self):
        return 'Node({} {} {}{})'.format(self.cls, self.num, 'C' if self.constructed else 'P',
                                         ' n={}'.format(len(self.children)) if self.children is not None else '')


def read_ident(data, off):
    if off >= len(data):
        raise Malformed('no identifier octet')
    b = data[off]
    cls = CLASSES[b >> 6]
    constructed = bool(b & 0x20)
    num = b & 0x1f
    off += 1
    if num == 0x1f:
        num = 0
        first = True
        while True:
            if off >= len(data):
                raise Malformed('identifier runs out')
            c = data[off]
            off += 1
            if first and c == 0x80:
                raise Malformed('leading 0x80 in tag number')
            first = False
            num = (num << 7) | (c & 0x7f)
            if not c & 0x80:
                break
        if num < 31:
            raise Malformed('non-minimal high tag number form')
    return cls, constructed, num, off


def read_len(data, off):
    """-> (length or None for indefinite, new offset, minimal?)"""
    if off >= len(data):
        raise Malformed('no length octet')
    b = data[off]
    off += 1
    if b < 0x80:
        return b, off, True
    if b == 0x80:
        return None, off, True
    k = b & 0x7f
    if k == 0x7f:
        raise Malformed('reserved length octet')
    if off + k > len(data):
        raise Malformed('length octets run out')
    n = int.from_bytes(data[off:off + k], 'big')
    minimal = n > 127 and (data[off] != 0)
    return n, off + k, minimal


def parse(data, off=0, end=None, depth=0):
    """Parse one TLV at off -> (Node, new offset).  Constructed nodes are parsed
    recursively; strict about structure, lenient about length forms (BER)."""
    data = bytes(data)
    if end is None:
        end = len(data)
    if depth > 200:
        raise Malformed('too deep')
    n = Node()
    n.start = off
    n.cls, n.constructed, n.num, o = read_ident(data[:end], off)
    n.idlen = o - off
    length, o2, n.minimal_len = read_len(data[:end], o)
    n.lenlen = o2 - o
    if length is None:
        if not n.constructed:
            raise Malformed('indefinite length on primitive encoding')
        n.indefinite = True
        n.children = []
        cur = o2
        while True:
            if cur + 2 > end:
                raise Malformed('missing end-of-contents')
            if data[cur] == 0 and data[cur + 1] == 0:
                cur += 2
                break
            ch, cur = parse(data, cur, end, depth + 1)
            n.children.append(ch)
        n.end = cur
        return n, cur
    if o2 + length > end:
        raise Malformed('contents run past the end ({} + {} > {})'.format(o2, length, end))
    if n.constructed:
        n.children = []
        cur = o2
        while cur < o2 + length:
            ch, cur = parse(data, cur, o2 + length, depth + 1)
            n.children.append(ch)
        if cur != o2 + length:
            raise Malformed('children do not fill the contents')
    else:
        n.content = data[o2:o2 + length]
    n.end = o2 + length
    return n, n.end


def parse_all(data):
    n, off = parse(data, 0)
    if off != len(data):
        raise Malformed('trailing octets after the TLV')
    return n


def is_der_tree(n):
    """Definite minimal lengths everywhere."""
    if n.indefinite or not n.minimal_len:
        return False
    if n.children is not None:
        return all(is_der_tree(c) for c in n.children)
    return True


def header_extent(data):
    """Number of identifier + length octets of the first TLV, and its total length (None if indefinite)."""
    cls, constructed, num, o = read_ident(bytes(data), 0)
    length, o2, _ = read_len(bytes(data), o)
    return o2, (None if length is None else o2 + length)


def serialize(n, choose=None):
    """Serialise a Node tree.  choose(node) -> dict(indef=bool, pad=int) for
    constructed/primitive nodes (default: DER forms)."""
    opt = choose(n) if choose else {}
    if n.children is not None:
        body = b''.join(serialize(c, choose) for c in n.children)
        constructed = True
    else:
        body = n.content
        constructed = False
    ident = enc_ident(n.cls, constructed, n.num)
    if constructed and opt.get('indef'):
        return ident + b'\x80' + body + b'\x00\x00'
    return ident + enc_len(len(body), opt.get('pad', 0)) + body


# ---------------------------------------------------------------------------
# contents octets

def int_octets(v):
    n = (v.bit_length() // 8) + 1 if v >= 0 else ((v + 1).bit_length() // 8) + 1
    return v.to_bytes(n, 'big', signed=True)


def real_octets(x):
    if isinstance(x, int) and not isinstance(x, bool):
        x = float(x)
    if x != x:
        return b'\x42'
    if x == float('inf'):
        return b'\x40'
    if x == float('-inf'):
        return b'\x41'
    if x == 0.0:
        if math.copysign(1.0, x) < 0:
            raise Undecided('REAL minus zero')
        return b''
    sign = 0x40 if x < 0 else 0
    m, e = math.frexp(abs(x))
    n = int(m * (1 << 53))
    e -= 53
    while n % 2 == 0:
        n //= 2
        e += 1
    eo = int_octets(e)
    mo = n.to_bytes((n.bit_length() + 7) // 8, 'big')
    if len(eo) == 1:
        first = 0x80 | sign | 0
    elif len(eo) == 2:
        first = 0x80 | sign | 1
    elif len(eo) == 3:
        first = 0x80 | sign | 2
    else:
        raise Undecided('REAL exponent > 3 octets')
    return bytes([first]) + eo + mo


def oid_octets(s):
    arcs = [int(a) for a in s.split('.')]
    if len(arcs) < 2:
        raise Undecided('OID with fewer than two arcs')
    subs = [40 * arcs[0] + arcs[1]] + arcs[2:]
    out = bytearray()
    for a in subs:
        chunk = [a & 0x7f]
        a >>= 7
        while a:
            chunk.append(0x80 | (a & 0x7f))
            a >>= 7
        out.extend(reversed(chunk))
    return bytes(out)


def bit_octets(data, nbits, named):
    data, nbits = V.clean_bits(data, nbits, named)[:2] if True else (data, nbits)
    unused = (8 - nbits % 8) % 8
    return bytes([unused]) + bytes(data)


def string_octets(kind, s):
    if kind in ('GeneralString', 'GraphicString', 'TeletexString'):
        if any(ord(c) > 127 for c in s):
            raise Undecided('non-ASCII character in an ISO 2022 based string type')
        return s.encode('ascii')
    return s.encode(STRING_KINDS[kind][1])


def time_octets(kind, v, der=True):
    import datetime
    if v.tzinfo is not None:
        v = (v - v.utcoffset()).replace(tzinfo=None)
    if kind == 'UTCTime':
        if v.microsecond:
            raise Undecided('UTCTime with fractional seconds')
        return v.strftime('%y%m%d%H%M%S').encode('ascii') + b'Z'
    if v.year < 1000:
        raise Undecided('year < 1000')
    s = v.strftime('%Y%m%d%H%M%S')
    if v.microsecond:
        s += ('.%06d' % v.microsecond).rstrip('0')
    return s.encode('ascii') + b'Z'


# ---------------------------------------------------------------------------
# DER encoder from my AST

class Der(object):

    def __init__(self, env, numeric=False):
        self.env = env
        self.numeric = numeric

    def wrap(self, ls, constructed, content):
        out = tlv(ls[-1][0], constructed, ls[-1][1], content)
        for cls, num in reversed(ls[:-1]):
            out = tlv(cls, True, num, out)
        return out

    def encode(self, mod, t, v, outer=None):
        env = self.env
        ls, r = tagging.layers(env, mod, t, outer)
        b = r.base
        k = b.kind
        if k == 'CHOICE':
            auto = tagging.component_autotags(env, r.mod, b)
            for c in all_comps(b):
                if c.name == v[0]:
                    inner = self.encode(r.mod, c.t, v[1], auto.get(c.name))
                    for cls, num in reversed(ls):
                        inner = tlv(cls, True, num, inner)
                    return inner
            raise Undecided('unknown alternative')
        if k == 'BOOLEAN':
            return self.wrap(ls, False, b'\xff' if v else b'\x00')
        if k == 'INTEGER':
            return self.wrap(ls, False, int_octets(v))
        if k == 'ENUMERATED':
            num = V.enum_number(b, v) if isinstance(v, str) else v
            return self.wrap(ls, False, int_octets(num))
        if k == 'REAL':
            return self.wrap(ls, False, real_octets(v))
        if k == 'NULL':
            return self.wrap(ls, False, b'')
        if k == 'BIT STRING':
            return self.wrap(ls, False, bit_octets(v[0], v[1], bool(b.named_bits)))
        if k == 'OCTET STRING':
            return self.wrap(ls, False, bytes(v))
        if k == 'OBJECT IDENTIFIER':
            return self.wrap(ls, False, oid_octets(v))
        if k in STRING_KINDS:
            return self.wrap(ls, False, string_octets(k, v))
        if k in TIME_KINDS:
            return self.wrap(ls, False, time_octets(k, v))
        if k in ('SEQUENCE', 'SET'):
            auto = tagging.component_autotags(env, r.mod, b)
            parts = []
            for c in all_comps(b):
                if c.name not in v:
                    if c.optional or c.has_default:
                        continue
                    raise Undecided('mandatory component missing')
                if c.has_default:
                    d = V.to_numeric(env, r.mod, c.t, c.default) if self.numeric else c.default
                    if V.canon(env, r.mod, c.t, v[c.name], self.numeric) == V.canon(env, r.mod, c.t, d, self.numeric):
                        continue
                enc = self.encode(r.mod, c.t, v[c.name], auto.get(c.name))
                parts.append(enc)
            if k == 'SET':
                def key(e):
                    cls, constructed, num, _ = read_ident(e, 0)
                    return (CLASS_ORDER[cls], num)
                parts.sort(key=key)
            return self.wrap(ls, True, b''.join(parts))
        if k in ('SEQUENCE OF', 'SET OF'):
            parts = [self.encode(r.mod, b.elem, e) for e in v]
            if k == 'SET OF':
                m = max([len(p) for p in parts] + [0])
                parts.sort(key=lambda p: p + b'\x00' * (m - len(p)))
            return self.wrap(ls, True, b''.join(parts))
        raise Undecided('kind ' + k)


SELFTEST = [
    # (description, bytes produced by the model primitive, expected hex) - vectors from X.690 / hand-computed
    ('INTEGER 0', lambda: int_octets(0), '00'),
    ('INTEGER 127', lambda: int_octets(127), '7f'),
    ('INTEGER 128', lambda: int_octets(128), '0080'),
    ('INTEGER 256', lambda: int_octets(256), '0100'),
    ('INTEGER -128', lambda: int_octets(-128), '80'),
    ('INTEGER -129', lambda: int_octets(-129), 'ff7f'),
    ('INTEGER -1', lambda: int_octets(-1), 'ff'),
    ('INTEGER -32768', lambda: int_octets(-32768), '8000'),
    ('length 127', lambda: enc_len(127), '7f'),
    ('length 128', lambda: enc_len(128), '8180'),
    ('length 201 (X.690 8.1.3.5)', lambda: enc_len(201), '81c9'),
    ('length 256', lambda: enc_len(256), '820100'),
    ('length 65536', lambda: enc_len(65536), '83010000'),
    ('tag [30]', lambda: enc_ident(CONTEXT, False, 30), '9e'),
    ('tag [31]', lambda: enc_ident(CONTEXT, False, 31), '9f1f'),
    ('tag [127]', lambda: enc_ident(CONTEXT, False, 127), '9f7f'),
    ('tag [128]', lambda: enc_ident(CONTEXT, True, 128), 'bf8100'),
    ('tag [APPLICATION 16384]', lambda: enc_ident(APPLICATION, False, 16384), '5f818000'),
    ('OID 2.100.3 (X.690 8.19.5)', lambda: oid_octets('2.100.3'), '813403'),
    ('OID 1.2.840.113549', lambda: oid_octets('1.2.840.113549'), '2a864886f70d'),
    ('OID 2.999.3', lambda: oid_octets('2.999.3'), '883703'),
    ('BIT STRING 0A3B5F291CD (X.690 8.6.4.2)', lambda: bit_octets(bytes.fromhex('0a3b5f291cd0'), 44, False), '040a3b5f291cd0'),
    ('BIT STRING 6e5dc0/18 bits', lambda: bit_octets(bytes.fromhex('6e5dc0'), 18, False), '066e5dc0'),
    ('BIT STRING empty', lambda: bit_octets(b'', 0, False), '00'),
    ('REAL 0', lambda: real_octets(0.0), ''),
    ('REAL 1.0', lambda: real_octets(1.0), '800001'),
    ('REAL 0.5', lambda: real_octets(0.5), '80ff01'),
    ('REAL -2.0', lambda: real_octets(-2.0), 'c00101'),
    ('REAL 255.0', lambda: real_octets(255.0), '8000ff'),
    ('REAL 256.0', lambda: real_octets(256.0), '800801'),
    ('REAL 0.1', lambda: real_octets(0.1), '80c90ccccccccccccd'),
    ('REAL 2^-1074', lambda: real_octets(5e-324), '81fbce01'),
    ('REAL +inf', lambda: real_octets(float('inf')), '40'),
    ('REAL -inf', lambda: real_octets(float('-inf')), '41'),
    ('VisibleString Jones (X.690 8.21.5.4)', lambda: tlv(UNIVERSAL, False, 26, b'Jones'), '1a054a6f6e6573'),
    ('[APPLICATION 3] IMPLICIT Jones', lambda: tlv(APPLICATION, False, 3, b'Jones'), '43054a6f6e6573'),
    ('[2] EXPLICIT Jones', lambda: tlv(CONTEXT, True, 2, tlv(UNIVERSAL, False, 26, b'Jones')), 'a2071a054a6f6e6573'),
    ('SEQUENCE {name IA5String Smith, ok BOOLEAN TRUE} (X.690 8.9.3)',
     lambda: tlv(UNIVERSAL, True, 16, tlv(UNIVERSAL, False, 22, b'Smith') + tlv(UNIVERSAL, False, 1, b'\xff')),
     '300a1605536d6974680101ff'),
]


def selftest():
    bad = []
    for name, fn, exp in SELFTEST:
        got = bytes(fn()).hex()
        if got != exp:
            bad.append('{}: got {} expected {}'.format(name, got, exp))
    # reader round trip on a composite
    blob = bytes.fromhex('300a1605536d6974680101ff')
    n = parse_all(blob)
    if not (n.num == 16 and len(n.children) == 2 and serialize(n) == blob and is_der_tree(n)):
        bad.append('reader/serialiser round trip')
    ind = serialize(n, lambda x: {'indef': True})
    if ind.hex() != '30801605536d6974680101ff0000' or parse_all(ind).children[0].content != b'Smith':
        bad.append('indefinite form: ' + ind.hex())
    return bad


# ---------------------------------------------------------------------------
# type-directed annotation of an encoder's TLV tree and BER variant writer (C04)

def annotate(env, mod, t, v, node, numeric=False, outer=None, set_additions_fixed_order=False):
    """Mark string / bit-string / SET nodes of `node` (the TLV tree of a BER encoding
    of value v of type t).  Returns False when the tree does not match the type
    (then the case is skipped, it is C03's business)."""
    ls, r = tagging.layers(env, mod, t, outer)
    b = r.base
    k = b.kind
    if k == 'CHOICE':
        cur = node
        for cls, num in ls:
            if (cur.cls, cur.num) != (cls, num) or not cur.children or len(cur.children) != 1:
                return False
            cur = cur.children[0]
        auto = tagging.component_autotags(env, r.mod, b)
        for c in all_comps(b):
            if c.name == v[0]:
                return annotate(env, r.mod, c.t, v[1], cur, numeric, auto.get(c.name), set_additions_fixed_order)
        return False
    cur = node
    for cls, num in ls[:-1]:
        if (cur.cls, cur.num) != (cls, num) or not cur.children or len(cur.children) != 1:
            return False
        cur = cur.children[0]
    if (cur.cls, cur.num) != ls[-1]:
        return False
    if k in ('OCTET STRING',) or k in STRING_KINDS:
        cur.info = 'octets'
        return cur.children is None
    if k == 'BIT STRING':
        cur.info = 'bits'
        return cur.children is None
    if k in ('SEQUENCE', 'SET'):
        if cur.children is None:
            return False
        if k == 'SET' and not (set_additions_fixed_order and tagging.flat_additions(b)):
            cur.info = 'set'
        auto = tagging.component_autotags(env, r.mod, b)
        present = []
        for c in all_comps(b):
            if c.name in v:
                present.append(c)
        used = set()
        for ch in cur.children:
            found = None
            for c in present:
                if id(c) in used:
                    continue
                if (ch.cls, ch.num) in tagging.outer_tags(env, r.mod, c.t, auto.get(c.name)):
                    found = c
                    break
            if found is None:
                return False
            used.add(id(found))
            if not annotate(env, r.mod, found.t, v[found.name], ch, numeric, auto.get(found.name), set_additions_fixed_order):
                return False
        return True
    if k in ('SEQUENCE OF', 'SET OF'):
        if cur.children is None or len(cur.children) != len(v):
            return False
        if k == 'SET OF':
            cur.info = 'setof'
        for ch, e in zip(cur.children, v):
            if not annotate(env, r.mod, b.elem, e, ch, numeric, None, set_additions_fixed_order):
                return False
        return True
    return cur.children is None


def segment(rnd, node, depth=0):
    """Turn a primitive string node into a constructed one with 1-4 cut points."""
    content = node.content
    if node.info == 'bits':
        unused = content[0] if content else 0
        body = content[1:]
        if len(body) < 2:
            return False
        cuts = sorted(set(rnd.randrange(1, len(body)) for _ in range(rnd.randint(1, 4))))
        parts = []
        prev = 0
        for c in cuts + [len(body)]:
            parts.append(body[prev:c])
            prev = c
        segs = []
        for i, p in enumerate(parts):
            s = Node()
            s.cls, s.constructed, s.num = UNIVERSAL, False, 3
            s.content = bytes([unused if i == len(parts) - 1 else 0]) + p
            s.info = 'bits'
            segs.append(s)
    else:
        if len(content) < 1:
            parts = [b'']
        else:
            cuts = sorted(set(rnd.randrange(0, len(content) + 1) for _ in range(rnd.randint(1, 4))))
            parts = []
            prev = 0
            for c in cuts + [len(content)]:
                parts.append(content[prev:c])
                prev = c
        segs = []
        for p in parts:
            s = Node()
            s.cls, s.constructed, s.num = UNIVERSAL, False, 4
            s.content = p
            s.info = 'octets'
            segs.append(s)
    node.content = None
    node.children = segs
    node.constructed = True
    if depth < 2:
        for s in segs:
            if rnd.random() < 0.3:
                segment(rnd, s, depth + 1)
    return True


def make_variant(rnd, root, p_indef=0.35, p_pad=0.35, p_seg=0.5, p_perm=0.7):
    """-> (bytes, set of rewrite kinds used).  Works on a deep copy of the annotated tree."""
    import copy
    tree = copy.deepcopy(root)
    used = set()
    choice = {}

    def walk(n, depth=0):
        if n.children is None and n.info in ('octets', 'bits') and rnd.random() < p_seg:
            if segment(rnd, n):
                used.add('segmented')
                used.add('seg_depth_{}'.format(seg_depth(n)))
        if n.children is not None:
            if n.info == 'set' and len(n.children) > 1 and rnd.random() < p_perm:
                before = [id(c) for c in n.children]
                rnd.shuffle(n.children)
                if [id(c) for c in n.children] != before:
                    used.add('permuted')
            for c in n.children:
                walk(c, depth + 1)
            x = rnd.random()
            if x < p_indef:
                choice[id(n)] = {'indef': True}
                used.add('indefinite')
            elif x < p_indef + p_pad:
                choice[id(n)] = {'pad': rnd.randint(1, 4)}
                used.add('padded')
        else:
            if rnd.random() < p_pad:
                choice[id(n)] = {'pad': rnd.randint(1, 4)}
                used.add('padded')
    walk(tree)
    data = serialize(tree, lambda n: choice.get(id(n), {}))
    return data, used


def seg_depth(n):
    if n.children is None:
        return 0
    return 1 + max([seg_depth(c) for c in n.children] + [0])
