"""Independent executable model of Basic OER (Rec. ITU-T X.696 (08/2015) clauses 8-29),
driven by my AST.  Written from the text of the Recommendation, not from the library.

Where BASIC-OER leaves the sender a choice the model produces the CANONICAL-OER form
and `Oer.encode_variants` also returns the other sender's options it knows of
(DEFAULT-valued components present); things it cannot decide raise Undecided.

  8.6  length determinant: short form 0..127, long form 0x80|n + n octets (minimal)
  8.7  tag: class in bits 8-7, number in bits 6-1 if < 63, else 111111 + base-128 octets
  9    BOOLEAN: 00 / FF
  10   INTEGER: OER-visible (non-extensible) bounds select 1/2/4/8 octet unsigned
       (lb >= 0) or signed (lb < 0) forms; otherwise length + minimal octets
       (unsigned if lb >= 0 is known, else two's complement)
  11   ENUMERATED: 0..127 in one octet, else 0x80|n + n octets two's complement
  12   REAL: binary32/binary64 inner subtyping -> IEEE 754 octets; else length + X.690 contents
  13   BIT STRING: fixed size -> ceil(n/8) octets; else length, unused-bits octet, bits
  14   OCTET STRING: fixed size -> octets; else length + octets
  15   NULL: nothing
  16   SEQUENCE: preamble (extension bit, one bit per OPTIONAL/DEFAULT root component,
       padded), root components, then presence bitmap (as a BIT STRING with length) and
       each present addition as an open type; a group is one addition encoded as a SEQUENCE
  17   SET: as SEQUENCE with the root components in canonical tag order
  18/19 SEQUENCE OF / SET OF: quantity (length + unsigned octets), elements
  20   CHOICE: tag of the alternative, value; additions wrapped as open type
  21   OBJECT IDENTIFIER: length + X.690 contents
  27   restricted strings: fixed-size known-multiplier (1, 2 or 4 octets per character)
       -> characters only; everything else length + octets.  Permitted alphabets and
       extensible constraints are not OER-visible.
"""

import struct

from ..asn.ast import (T, Comp, Group, Range, Tag, Module, Spec, Env, all_comps, flat_additions,
                       STRING_KINDS, TIME_KINDS, CONTEXT, APPLICATION, PRIVATE, UNIVERSAL)
from ..asn import tagging
from ..asn import values as V
from . import x690
from .x690 import Undecided

ONE_OCTET = ('NumericString', 'PrintableString', 'IA5String', 'VisibleString')
CLASS_BITS = {UNIVERSAL: 0x00, APPLICATION: 0x40, CONTEXT: 0x80, PRIVATE: 0xc0}


def length(n):
    if n < 128:
        return bytes([n])
    data = n.to_bytes((n.bit_length() + 7) // 8, 'big')
    return bytes([0x80 | len(data)]) + data


def tag_octets(tag):
    cls, num = tag
    first = CLASS_BITS[cls]
    if num < 63:
        return bytes([first | num])
    out = []
    n = num
    while True:
        out.insert(0, n & 0x7f)
        n >>= 7
        if not n:
            break
    return bytes([first | 0x3f] + [b | 0x80 for b in out[:-1]] + [out[-1]])


def unsigned_octets(v):
    return v.to_bytes(max(1, (v.bit_length() + 7) // 8), 'big')


class Oer(object):

    def __init__(self, env, numeric=False, encode_defaults=False, encode_addition_defaults=False):
        self.env = env
        self.numeric = numeric
        self.encode_defaults = encode_defaults                      # sender's option for root components
        self.encode_addition_defaults = encode_addition_defaults    # ... and for extension additions
        self.default_seen = False        # a DEFAULT-valued component was met (sender's option exists)

    def encode(self, mod, t, v):
        return bytes(self.enc(mod, t, v))

    # ------------------------------------------------------------------
    def enc(self, mod, t, v):
        env = self.env
        r = env.res(mod, t)
        b = r.base
        k = b.kind
        if k == 'BOOLEAN':
            return b'\xff' if v else b'\x00'
        if k == 'NULL':
            return b''
        if k == 'INTEGER':
            return self.enc_integer(r, v)
        if k == 'ENUMERATED':
            n = v
            if isinstance(v, str):
                n = V.enum_number(b, v)
            if 0 <= n <= 127:
                return bytes([n])
            data = x690.int_octets(n)
            return bytes([0x80 | len(data)]) + data
        if k == 'REAL':
            if b.real_fmt == 'binary32':
                return struct.pack('>f', float(v))
            if b.real_fmt == 'binary64':
                return struct.pack('>d', float(v))
            data = x690.real_octets(v)
            return length(len(data)) + data
        if k == 'OBJECT IDENTIFIER':
            data = x690.oid_octets(v)
            return length(len(data)) + data
        if k == 'BIT STRING':
            data, n = V.clean_bits(v[0], v[1], False)[:2]
            if b.named_bits:
                d2, n2 = V.clean_bits(v[0], v[1], True)[:2]
                if n2 != n:
                    raise Undecided('named-bit BIT STRING with trailing zero bits (sender option)')
            data = bytes(data)
            fixed = self.fixed_size(r)
            if fixed is not None:
                if n != fixed:
                    raise Undecided('bit count differs from the fixed size')
                return data[:(n + 7) // 8]
            body = bytes([(8 - n % 8) % 8]) + data[:(n + 7) // 8]
            return length(len(body)) + body
        if k == 'OCTET STRING':
            data = bytes(v)
            if self.fixed_size(r) is not None:
                return data
            return length(len(data)) + data
        if k in STRING_KINDS:
            return self.enc_string(r, v)
        if k in TIME_KINDS:
            raise Undecided('time types')
        if k in ('SEQUENCE', 'SET'):
            return self.enc_members(r, v)
        if k == 'CHOICE':
            return self.enc_choice(r, v)
        if k in ('SEQUENCE OF', 'SET OF'):
            q = unsigned_octets(len(v))
            out = bytearray(length(len(q)) + q)
            for e in v:
                out += self.enc(r.mod, b.elem, e)
            return bytes(out)
        raise Undecided(k)

    def fixed_size(self, r):
        s = r.size
        if s is None or s.ext or getattr(s, 'more', None):
            return None
        if s.lo is not None and s.lo == s.hi:
            return s.lo
        return None

    def enc_integer(self, r, v):
        rng = r.rng
        lo = hi = None
        if rng is not None and not rng.ext and not getattr(rng, 'more', None):
            lo, hi = rng.lo, rng.hi
        if lo is not None and lo >= 0:
            if hi is not None:
                for n in (1, 2, 4, 8):
                    if hi <= (1 << (8 * n)) - 1:
                        return v.to_bytes(n, 'big')
            data = unsigned_octets(v)
            return length(len(data)) + data
        if lo is not None and hi is not None:
            for n in (1, 2, 4, 8):
                if lo >= -(1 << (8 * n - 1)) and hi <= (1 << (8 * n - 1)) - 1:
                    return v.to_bytes(n, 'big', signed=True)
        data = x690.int_octets(v)
        return length(len(data)) + data

    def enc_string(self, r, v):
        k = r.base.kind
        if k in ONE_OCTET:
            data = v.encode('latin-1')
            width = 1
        elif k == 'BMPString':
            data = v.encode('utf-16-be')
            width = 2
        elif k == 'UniversalString':
            data = v.encode('utf-32-be')
            width = 4
        else:
            data = x690.string_octets(k, v)
            width = None
        if width is not None and self.fixed_size(r) is not None:
            return data
        return length(len(data)) + data

    # ------------------------------------------------------------------
    def root_order(self, r):
        b = r.base
        comps = list(b.comps or []) + list(b.comps2 or [])
        if b.kind == 'SET':
            auto = tagging.component_autotags(self.env, r.mod, b)
            comps = sorted(comps, key=lambda c: tagging.tag_key(tagging.min_tag(self.env, r.mod, c.t, auto.get(c.name))))
        return comps

    def is_default(self, mod, c, val):
        d = V.to_numeric(self.env, mod, c.t, c.default) if self.numeric else c.default
        return V.canon(self.env, mod, c.t, val, self.numeric) == V.canon(self.env, mod, c.t, d, self.numeric)

    def presence(self, mod, comps, v, addition=False):
        present = []
        for c in comps:
            if c.optional or c.has_default:
                p = c.name in v
                if p and c.has_default and self.is_default(mod, c, v[c.name]):
                    self.default_seen = True
                    p = self.encode_addition_defaults if addition else self.encode_defaults
                present.append(p)
            else:
                if c.name not in v:
                    raise Undecided('mandatory component missing')
                present.append(True)
        return present

    @staticmethod
    def bits_to_octets(bits):
        bits = list(bits)
        while len(bits) % 8:
            bits.append(0)
        out = bytearray()
        for i in range(0, len(bits), 8):
            x = 0
            for bit in bits[i:i + 8]:
                x = (x << 1) | bit
            out.append(x)
        return bytes(out)

    def enc_comps(self, mod, comps, v, ext_bit=None, addition=False):
        """SEQUENCE-like encoding of a component list: preamble + values."""
        present = self.presence(mod, comps, v, addition)
        bits = [] if ext_bit is None else [ext_bit]
        for c, p in zip(comps, present):
            if c.optional or c.has_default:
                bits.append(1 if p else 0)
        out = bytearray(self.bits_to_octets(bits))
        for c, p in zip(comps, present):
            if p:
                out += self.enc(mod, c.t, v[c.name])
        return out

    def enc_members(self, r, v):
        b = r.base
        ext = self.env.is_extensible(r)
        additions = list(b.ext or [])
        add_present = []
        for a in additions:
            if isinstance(a, Group):
                here = [c for c in a.comps if c.name in v]
                if here and all(c.has_default and self.is_default(r.mod, c, v[c.name]) for c in here):
                    raise Undecided('addition group with only DEFAULT-valued components')
                add_present.append(bool(here))
            else:
                p = a.name in v
                if p and a.has_default and self.is_default(r.mod, a, v[a.name]):
                    self.default_seen = True
                    p = self.encode_addition_defaults
                add_present.append(p)
        any_add = any(add_present)
        out = self.enc_comps(r.mod, self.root_order(r), v, (1 if any_add else 0) if ext else None)
        if any_add:
            n = len(additions)
            body = bytes([(8 - n % 8) % 8]) + self.bits_to_octets([1 if p else 0 for p in add_present])
            out += length(len(body)) + body
            for a, p in zip(additions, add_present):
                if not p:
                    continue
                if isinstance(a, Group):
                    inner = self.enc_comps(r.mod, a.comps, v, addition=True)
                else:
                    inner = self.enc(r.mod, a.t, v[a.name])
                out += length(len(inner)) + inner
        return bytes(out)

    def enc_choice(self, r, v):
        b = r.base
        auto = tagging.component_autotags(self.env, r.mod, b)
        root = list(b.comps or [])
        adds = flat_additions(b)
        for c in root + adds:
            if c.name == v[0]:
                break
        else:
            raise Undecided('unknown alternative')
        ls, rr = tagging.layers(self.env, r.mod, c.t, auto.get(c.name))
        if not ls:
            raise Undecided('untagged CHOICE as a CHOICE alternative')
        inner = self.enc(r.mod, c.t, v[1])
        out = tag_octets(ls[0])
        if c in adds:
            return out + length(len(inner)) + inner
        return out + inner


def encode_variants(env, mod, t, v, numeric=False):
    """-> (canonical octets, set of acceptable BASIC-OER octets known to the model)."""
    m = Oer(env, numeric)
    canon = m.encode(mod, t, v)
    ok = {canon}
    if m.default_seen:
        for rd, ad in ((True, False), (False, True), (True, True)):
            ok.add(Oer(env, numeric, encode_defaults=rd, encode_addition_defaults=ad).encode(mod, t, v))
    return canon, ok


# ---------------------------------------------------------------------------
# Self-test: vectors worked out by hand from the clauses above (the Recommendation has
# no annex of complete worked examples comparable to X.691 Annex A).

def _selftest_cases():
    m = Module('M', tags='AUTOMATIC')
    I = lambda lo, hi, ext=False: T('INTEGER', rng=Range(lo, hi, ext=ext))
    seq = T('SEQUENCE', comps=[Comp('a', T('BOOLEAN')), Comp('b', I(0, 255), optional=True),
                               Comp('c', T('INTEGER'), default=5)],
            ext=[Comp('d', T('NULL')), Group([Comp('e', I(-128, 127)), Comp('f', T('BOOLEAN'), optional=True)])])
    st = T('SET', comps=[Comp('x', T('BOOLEAN', tag=Tag(CONTEXT, 1))), Comp('y', T('INTEGER', tag=Tag(CONTEXT, 0)), optional=True)])
    ch = T('CHOICE', comps=[Comp('a', T('BOOLEAN')), Comp('b', T('OCTET STRING'))], ext=[Comp('c', I(0, 65535))])
    en = T('ENUMERATED', enum_root=[('a', None, 0), ('b', 127, 127), ('c', 128, 128), ('d', -1, -1), ('e', 40000, 40000)])
    cases = [
        (T('BOOLEAN'), True, 'ff'), (T('BOOLEAN'), False, '00'), (T('NULL'), None, ''),
        (I(0, 255), 255, 'ff'), (I(0, 256), 256, '0100'), (I(0, 65536), 1, '00000001'),
        (I(0, 2 ** 32), 1, '0000000000000001'), (I(0, 2 ** 64), 1, '0101'), (I(0, None), 256, '020100'),
        (I(0, None), 0, '0100'),
        (I(-128, 127), -1, 'ff'), (I(-129, 127), -1, 'ffff'), (I(-1, 2 ** 31), 1, '0000000000000001'),
        (I(-2 ** 63, 2 ** 63), 1, '0101'), (I(None, 5), -129, '02ff7f'), (T('INTEGER'), 128, '020080'),
        (I(0, 255, True), 5, '0105'), (I(0, 255, True), -1, '01ff'),
        (en, 'a', '00'), (en, 'b', '7f'), (en, 'c', '820080'), (en, 'd', '81ff'), (en, 'e', '83009c40'),
        (T('REAL', real_fmt='binary32'), 1.0, '3f800000'), (T('REAL', real_fmt='binary64'), -2.0, 'c000000000000000'),
        (T('REAL'), 0.0, '00'),
        (T('BIT STRING', size=Range(12, 12)), (b'\xab\xc0', 12), 'abc0'), (T('BIT STRING'), (b'\xab\xc0', 12), '0304abc0'),
        (T('BIT STRING'), (b'', 0), '0100'), (T('BIT STRING', size=Range(1, 12)), (b'\x80', 1), '020780'),
        (T('OCTET STRING', size=Range(2, 2)), b'\x01\x02', '0102'), (T('OCTET STRING'), b'\x01\x02', '020102'),
        (T('OCTET STRING'), bytes(200), '81c8' + '00' * 200),
        (T('IA5String', size=Range(3, 3)), 'abc', '616263'), (T('IA5String', size=Range(3, 3, ext=True)), 'abc', '03616263'),
        (T('BMPString', size=Range(1, 1)), 'a', '0061'), (T('UniversalString', size=Range(1, 1)), 'a', '00000061'),
        (T('UTF8String', size=Range(1, 1)), 'å', '02c3a5'), (T('VisibleString'), 'ab', '026162'),
        (T('OBJECT IDENTIFIER'), '1.2.840', '032a8648'),
        (T('SEQUENCE OF', elem=I(0, 255)), [1, 2, 3], '0103010203'), (T('SEQUENCE OF', elem=T('NULL')), [], '0100'),
        (T('SET OF', elem=T('BOOLEAN'), size=Range(2, 2)), [True, False], '0102ff00'),
        (seq, {'a': True, 'c': 5}, '00ff'), (seq, {'a': True, 'b': 1, 'c': 6}, '60ff01' + '0106'),
        (seq, {'a': False, 'c': 5, 'd': None}, '8000' + '020680' + '00'),
        (seq, {'a': False, 'c': 5, 'e': -1}, '8000' + '020640' + '0200ff'),
        (seq, {'a': False, 'c': 5, 'd': None, 'e': 1, 'f': True}, '8000' + '0206c0' + '00' + '038001ff'),
        (st, {'x': True, 'y': 2}, '80' + '0102' + 'ff'), (st, {'x': False}, '00' + '00'),
        (ch, ('a', True), '80ff'), (ch, ('b', b'\x01'), '810101'), (ch, ('c', 258), '82' + '02' + '0102'),
        (T('CHOICE', comps=[Comp('a', T('NULL', tag=Tag(PRIVATE, 63))), Comp('b', T('NULL', tag=Tag(APPLICATION, 16384)))]),
         ('a', None), 'ff3f'),
        (T('CHOICE', comps=[Comp('a', T('NULL', tag=Tag(PRIVATE, 63))), Comp('b', T('NULL', tag=Tag(APPLICATION, 16384)))]),
         ('b', None), '7f818000'),
        (T('CHOICE', comps=[Comp('a', T('INTEGER', tag=Tag(CONTEXT, 62, 'EXPLICIT'))), Comp('b', T('NULL'))]), ('a', 1), 'be0101'),
    ]
    return m, cases


def selftest():
    """-> (list of failures, number passed)"""
    m, cases = _selftest_cases()
    bad, ok = [], 0
    for i, (t, v, hexexp) in enumerate(cases):
        from ..asn.ast import Assign
        mod = Module('M', tags='AUTOMATIC')
        mod.assigns.append(Assign('type', 'A', t))
        env = Env(Spec([mod]))
        try:
            got = Oer(env).encode(mod, t, v).hex()
        except Exception as e:
            got = 'EXC ' + repr(e)
        if got == hexexp:
            ok += 1
        else:
            bad.append('#{} {} {!r}: model {} expected {}'.format(i, t.kind, v, got, hexexp))
    return bad, ok
