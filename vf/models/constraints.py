"""Independent interpreter of the constraints in my AST (C11/C12).

verdict(env, mod, t, v) walks a value and returns the list of nodes that violate a
non-extensible single value / single range / SIZE / permitted-alphabet constraint.
perturb() produces a value that differs from a valid one in exactly one node, which
is pushed just outside one interpreted constraint.
"""

import copy

from ..asn.ast import STRING_KINDS, all_comps, inherent_alphabet
from ..asn import values as V

SIZED = ('BIT STRING', 'OCTET STRING', 'SEQUENCE OF', 'SET OF') + tuple(STRING_KINDS)


def node_violations(r, v):
    """-> list of strings describing violated interpreted constraints of this node."""
    out = []
    k = r.base.kind
    if k == 'INTEGER' and r.rng is not None and not r.rng.ext and isinstance(v, int) and not isinstance(v, bool):
        if not r.rng.contains(v):
            out.append('range')
    if k in SIZED and r.size is not None and not r.size.ext:
        try:
            n = v[1] if k == 'BIT STRING' else len(v)
        except Exception:
            n = None
        if n is not None and not r.size.contains(n):
            out.append('size')
    if k in STRING_KINDS and r.alpha is not None and not r.alpha.ext and isinstance(v, str):
        allowed = set(r.alpha.chars())
        if any(ch not in allowed for ch in v):
            out.append('alphabet')
    return out


def verdict(env, mod, t, v):
    bad = []
    for r, nv, path in V.walk(env, mod, t, v):
        for what in node_violations(r, nv):
            bad.append((path, what))
    return bad


def replace_at(env, mod, t, v, path, new):
    """Rebuild v with the node at `path` replaced by new."""
    if not path:
        return new
    r = env.res(mod, t)
    b = r.base
    k = b.kind
    head = path[0]
    if k in ('SEQUENCE', 'SET'):
        out = dict(v)
        for c in all_comps(b):
            if c.name == head:
                out[head] = replace_at(env, r.mod, c.t, v[head], path[1:], new)
        return out
    if k == 'CHOICE':
        for c in all_comps(b):
            if c.name == head:
                return (v[0], replace_at(env, r.mod, c.t, v[1], path[1:], new))
    if k in ('SEQUENCE OF', 'SET OF'):
        out = list(v)
        out[head] = replace_at(env, r.mod, b.elem, v[head], path[1:], new)
        return out
    raise KeyError(path)


def bound_source(rng, side):
    txt = rng.lo_txt if side == 'lo' else rng.hi_txt
    return 'reference' if txt else 'literal'


def candidates(env, mod, t, v):
    """Nodes with an interpreted constraint that can be pushed just outside."""
    out = []
    for r, nv, path in V.walk(env, mod, t, v):
        k = r.base.kind
        via = 'via_typeref' if r.chain else 'direct'
        if k == 'INTEGER' and r.rng is not None and not r.rng.ext:
            if r.rng.lo is not None:
                out.append((path, r, 'range', 'below', bound_source(r.rng, 'lo'), via))
            if r.rng.hi is not None:
                out.append((path, r, 'range', 'above', bound_source(r.rng, 'hi'), via))
        if k in SIZED and r.size is not None and not r.size.ext:
            if k == 'BIT STRING' and r.base.named_bits:
                continue            # X.680 22.7: trailing zero bits may be added/removed to meet SIZE (not probed)
            if (r.size.lo or 0) > 0:
                out.append((path, r, 'size', 'below', bound_source(r.size, 'lo'), via))
            if r.size.hi is not None and r.size.hi < 2000:
                out.append((path, r, 'size', 'above', bound_source(r.size, 'hi'), via))
        if k in STRING_KINDS and r.alpha is not None and not r.alpha.ext and isinstance(nv, str) and len(nv) > 0:
            inh = inherent_alphabet(k)
            allowed = set(r.alpha.chars())
            pool = [c for c in (inh if inh is not None else ['a', 'b', 'z', 'Q', '7', ' ']) if c not in allowed]
            if pool:
                out.append((path, r, 'alphabet', 'outside', 'literal', via))
    return out


def make_outside(env, rnd, cand, nv, vg):
    """New value for the node: just outside the chosen constraint (other constraints of the node stay satisfied)."""
    path, r, what, side, src, via = cand
    k = r.base.kind
    if what == 'range':
        return r.rng.lo - 1 if side == 'below' else r.rng.hi + 1
    if what == 'alphabet':
        inh = inherent_alphabet(k)
        allowed = set(r.alpha.chars())
        pool = [c for c in (inh if inh is not None else ['a', 'b', 'z', 'Q', '7', ' ']) if c not in allowed]
        i = rnd.randrange(len(nv))
        return nv[:i] + rnd.choice(pool) + nv[i + 1:]
    # size
    target = (r.size.lo - 1) if side == 'below' else (r.size.hi + 1)
    if k == 'BIT STRING':
        data = bytearray(nv[0]) + bytearray((target + 7) // 8)
        data = data[:(target + 7) // 8]
        if target % 8:
            data[-1] &= (0xff << (8 - target % 8)) & 0xff
        return (bytes(data), target)
    if k == 'OCTET STRING':
        return (bytes(nv) + b'\x00' * target)[:target]
    if k in STRING_KINDS:
        fill = nv[0] if nv else (r.alpha.chars()[0] if r.alpha is not None else
                                 (inherent_alphabet(k) or ['a'])[0] if k != 'NumericString' else '1')
        return (nv + fill * target)[:target]
    # lists
    out = list(nv)[:target]
    while len(out) < target:
        if nv:
            out.append(copy.deepcopy(nv[0]))
        else:
            out.append(vg.value(r.mod, r.base.elem, depth=3))
    return out
