"""Independent executable model of X.691 (PER): UPER (unaligned) and aligned PER,
driven by my AST.  Clauses the model does not assert raise Undecided (counted,
never compared).  Validated at start-up against the X.691 Annex A worked examples.
"""

import math

from ..asn.ast import (STRING_KINDS, TIME_KINDS, all_comps, flat_additions, Group, NODEFAULT, T, Comp, Range,
                       Alpha, Tag, Module, Spec, Assign, Env, APPLICATION, CONTEXT, inherent_alphabet)
from ..asn import tagging
from ..asn import values as V
from . import x690
from .x690 import Undecided

KM = ('NumericString', 'PrintableString', 'IA5String', 'VisibleString', 'BMPString', 'UniversalString')


class W(object):
    """Bit writer (chunked, so that long values cost linear time)."""

    def __init__(self, aligned):
        self.aligned = aligned
        self.chunks = []      # [(value, nbits)] completed
        self.v = 0            # accumulator
        self.an = 0           # bits in the accumulator
        self.n = 0            # total bits

    def bits(self, value, nbits):
        if nbits == 0:
            return
        if value < 0 or value >> nbits:
            raise AssertionError('value {} does not fit {} bits'.format(value, nbits))
        if self.an > 4096 or nbits > 4096:
            if self.an:
                self.chunks.append((self.v, self.an))
            self.v, self.an = 0, 0
        self.v = (self.v << nbits) | value
        self.an += nbits
        self.n += nbits

    def align(self):
        if self.aligned and self.n % 8:
            self.bits(0, 8 - self.n % 8)

    def octets(self, data):
        data = bytes(data)
        if data:
            self.bits(int.from_bytes(data, 'big'), 8 * len(data))

    def extend(self, other):
        for v, n in other.chunks:
            self.bits(v, n)
        self.bits(other.v, other.an)

    def tobytes(self):
        parts = list(self.chunks) + ([(self.v, self.an)] if self.an else [])
        out = bytearray()
        carry, cn = 0, 0          # < 8 bits carried over
        for v, n in parts:
            v |= carry << n
            n += cn
            rem = n % 8
            if n - rem:
                out += (v >> rem).to_bytes((n - rem) // 8, 'big')
            carry, cn = v & ((1 << rem) - 1), rem
        if cn:
            out.append(carry << (8 - cn))
        return bytes(out)


def log2ceil(r):
    return (r - 1).bit_length()


def octets_of(n):
    return max(1, (n.bit_length() + 7) // 8)


class Per(object):

    def __init__(self, env, aligned, numeric=False):
        self.env = env
        self.aligned = aligned
        self.numeric = numeric

    # ---- primitives -------------------------------------------------------
    def cwn(self, w, v, lb, ub):
        r = ub - lb + 1
        if r == 1:
            return
        n = v - lb
        if not self.aligned:
            w.bits(n, log2ceil(r))
            return
        if r <= 255:
            w.bits(n, log2ceil(r))
        elif r == 256:
            w.align()
            w.bits(n, 8)
        elif r <= 65536:
            w.align()
            w.bits(n, 16)
        else:
            lmax = octets_of(ub - lb)
            ln = octets_of(n)
            w.bits(ln - 1, log2ceil(lmax))          # constrained length 1..lmax as a bit-field
            w.align()
            w.bits(n, 8 * ln)

    def glen(self, w, n):
        """General length determinant for n < 16384."""
        w.align()
        if n <= 127:
            w.bits(n, 8)
        elif n < 16384:
            w.bits(0x8000 | n, 16)
        else:
            raise AssertionError('fragmentation needed')

    def fragmented(self, w, n, emit):
        """emit(w, start, count) writes items [start, start+count)."""
        pos = 0
        while n - pos >= 16384:
            m = min(4, (n - pos) // 16384)
            w.align()
            w.bits(0xc0 | m, 8)
            emit(w, pos, m * 16384)
            pos += m * 16384
        self.glen(w, n - pos)
        emit(w, pos, n - pos)

    def scwn(self, w, v, lb):
        n = v - lb
        data = n.to_bytes(octets_of(n), 'big')
        self.glen(w, len(data))
        w.octets(data)

    def ucwn(self, w, v):
        data = x690.int_octets(v)
        self.glen(w, len(data))
        w.octets(data)

    def nsnn(self, w, n):
        if n <= 63:
            w.bits(0, 1)
            w.bits(n, 6)
        else:
            w.bits(1, 1)
            self.scwn(w, n, 0)

    def nslen(self, w, n):
        if n <= 64:
            w.bits(0, 1)
            w.bits(n - 1, 6)
        else:
            if self.aligned:
                raise Undecided('normally small length > 64 in the aligned variant')
            w.bits(1, 1)
            self.glen(w, n)

    def open_type(self, w, inner):
        data = inner.tobytes()
        if not data:
            data = b'\x00'

        def emit(w2, start, count):
            w2.octets(data[start:start + count])
        self.fragmented(w, len(data), emit)

    # ---- sized things -----------------------------------------------------
    def sized(self, w, n, size, emit, fixed_unaligned_limit, unit_is_element=False, variable_zero_undecided=True):
        """Common length logic of BIT STRING / OCTET STRING / SEQUENCE OF.
        emit(w, start, count); fixed_unaligned_limit: units up to which a fixed-size value is not octet-aligned."""
        lb, ub, ext = 0, None, False
        if size is not None:
            if size.lo is None and size.hi is None:
                raise Undecided('SIZE (MIN..MAX)')
            lb, ub, ext = size.lo or 0, size.hi, size.ext
        if ext:
            inroot = n >= lb and (ub is None or n <= ub)
            w.bits(0 if inroot else 1, 1)
            if not inroot:
                self.fragmented(w, n, emit)
                return
        if ub is None or ub >= 65536:
            self.fragmented(w, n, emit)
            return
        if lb == ub:
            if ub == 0:
                return
            if not unit_is_element and ub > fixed_unaligned_limit:
                w.align()
            emit(w, 0, n)
            return
        self.cwn(w, n, lb, ub)
        if not unit_is_element:
            if self.aligned and n == 0 and variable_zero_undecided:
                raise Undecided('aligned variant: variable size string of length 0')
            w.align()
        emit(w, 0, n)

    # ---- types --------------------------------------------------------------
    def encode(self, mod, t, v):
        w = W(self.aligned)
        self.enc(w, mod, t, v)
        self.last_bits = w.n
        out = w.tobytes()
        return out if out else b'\x00'

    def km_params(self, r):
        k = r.base.kind
        if r.alpha is not None and not r.alpha.ext:
            chars = r.alpha.chars()
        else:
            inh = inherent_alphabet(k)
            if inh is not None:
                chars = inh
            elif k == 'BMPString':
                chars = None
                nchars, top = 65536, 65535
            else:
                chars = None
                nchars, top = 2 ** 32, 2 ** 32 - 1
        if chars is not None:
            nchars, top = len(chars), ord(chars[-1])
        B = log2ceil(nchars)
        b = B
        if self.aligned:
            b = 1
            while b < B:
                b *= 2
            if B == 0:
                b = 0
        remap = chars is not None and top > (1 << b) - 1
        return chars, b, remap

    def enc(self, w, mod, t, v, outer=None):
        env = self.env
        r = env.res(mod, t)
        b = r.base
        k = b.kind
        if k == 'BOOLEAN':
            w.bits(1 if v else 0, 1)
        elif k == 'NULL':
            pass
        elif k == 'INTEGER':
            self.enc_integer(w, r, v)
        elif k == 'ENUMERATED':
            name = v
            if not isinstance(v, str):
                name = [x[0] for x in list(b.enum_root) + list(b.enum_ext or []) if x[2] == v][0]
            root = sorted(b.enum_root, key=lambda x: x[2])
            rnames = [x[0] for x in root]
            if b.enum_ext is not None:
                if name in rnames:
                    w.bits(0, 1)
                else:
                    w.bits(1, 1)
                    self.nsnn(w, [x[0] for x in b.enum_ext].index(name))
                    return
            self.cwn(w, rnames.index(name), 0, len(rnames) - 1)
        elif k == 'REAL':
            data = x690.real_octets(v)
            self.glen(w, len(data))
            w.octets(data)
        elif k == 'OBJECT IDENTIFIER':
            data = x690.oid_octets(v)
            self.glen(w, len(data))
            w.octets(data)
        elif k == 'BIT STRING':
            data, n = V.clean_bits(v[0], v[1], False)[:2]
            if b.named_bits:
                data, n = V.clean_bits(v[0], v[1], True)[:2]
                lo = (r.size.lo or 0) if r.size is not None else 0
                if n < lo:
                    n = lo
                data = bytes(data) + b'\x00' * ((n + 7) // 8 - len(data))
            bits = int.from_bytes(data, 'big') >> (8 * len(data) - n) if n else 0

            def emit(w2, start, count):
                if count:
                    w2.bits((bits >> (n - start - count)) & ((1 << count) - 1), count)
            self.sized(w, n, r.size, emit, 16)
        elif k == 'OCTET STRING':
            data = bytes(v)

            def emit(w2, start, count):
                w2.octets(data[start:start + count])
            self.sized(w, len(data), r.size, emit, 2)
        elif k in KM:
            self.enc_km(w, r, v)
        elif k in STRING_KINDS:
            data = x690.string_octets(k, v)

            def emit(w2, start, count):
                w2.octets(data[start:start + count])
            self.fragmented(w, len(data), emit)
        elif k in TIME_KINDS:
            raise Undecided('time types')
        elif k in ('SEQUENCE', 'SET'):
            self.enc_members(w, r, v)
        elif k == 'CHOICE':
            self.enc_choice(w, r, v)
        elif k in ('SEQUENCE OF', 'SET OF'):
            def emit(w2, start, count):
                for e in v[start:start + count]:
                    self.enc(w2, r.mod, b.elem, e)
            self.sized(w, len(v), r.size, emit, 0, unit_is_element=True)
        else:
            raise Undecided(k)

    def enc_integer(self, w, r, v):
        rng = r.rng
        if rng is None or (rng.lo is None and rng.hi is None):
            self.ucwn(w, v)
            return
        if rng.ext:
            inroot = rng.contains(v)
            w.bits(0 if inroot else 1, 1)
            if not inroot:
                self.ucwn(w, v)
                return
        if rng.lo is not None and rng.hi is not None:
            self.cwn(w, v, rng.lo, rng.hi)
        elif rng.lo is not None:
            self.scwn(w, v, rng.lo)
        else:
            self.ucwn(w, v)

    def enc_km(self, w, r, v):
        chars, b, remap = self.km_params(r)
        n = len(v)

        def code(ch):
            if remap:
                return chars.index(ch)
            return ord(ch)

        def emit(w2, start, count):
            for ch in v[start:start + count]:
                w2.bits(code(ch), b)
        size = r.size
        lb, ub, ext = 0, None, False
        if size is not None:
            if size.lo is None and size.hi is None:
                raise Undecided('SIZE (MIN..MAX)')
            lb, ub, ext = size.lo or 0, size.hi, size.ext
        if ext:
            inroot = n >= lb and (ub is None or n <= ub)
            w.bits(0 if inroot else 1, 1)
            if not inroot:
                self.fragmented(w, n, emit)
                return
        if ub is None or ub >= 65536:
            self.fragmented(w, n, emit)
            return
        if lb == ub:
            if self.aligned:
                if ub * b > 16:
                    w.align()
                elif ub * b == 16:
                    raise Undecided('aligned: fixed size known-multiplier string with aub*b = 16')
            emit(w, 0, n)
            return
        self.cwn(w, n, lb, ub)
        if self.aligned:
            if ub * b > 16:
                if n == 0:
                    raise Undecided('aligned: variable size string of length 0')
                w.align()
            else:
                raise Undecided('aligned: variable size known-multiplier string with aub*b <= 16')
        emit(w, 0, n)

    def root_order(self, r):
        b = r.base
        comps = list(b.comps or []) + list(b.comps2 or [])
        if b.kind == 'SET':
            auto = tagging.component_autotags(self.env, r.mod, b)
            comps = sorted(comps, key=lambda c: tagging.tag_key(tagging.min_tag(self.env, r.mod, c.t, auto.get(c.name))))
        return comps

    def is_default(self, mod, c, val):
        d = V.to_numeric(self.env, mod, c.t, c.default) if self.numeric else c.default
        return V.canon(self.env, mod, c.t, val, self.numeric) == V.canon(self.env, mod, c.t, d, self.numeric)

    def enc_comps(self, w, mod, comps, v):
        """Preamble + values of a list of components (root of a SEQUENCE/SET, or a group)."""
        present = []
        for c in comps:
            if c.optional or c.has_default:
                p = c.name in v
                if p and c.has_default and self.is_default(mod, c, v[c.name]):
                    kk = self.env.res(mod, c.t).base.kind
                    if kk in ('SEQUENCE', 'SET', 'CHOICE', 'SEQUENCE OF', 'SET OF'):
                        raise Undecided('structured DEFAULT equal to its default (encoder option)')
                    p = False
                w.bits(1 if p else 0, 1)
                present.append(p)
            else:
                if c.name not in v:
                    raise Undecided('mandatory component missing')
                present.append(True)
        for c, p in zip(comps, present):
            if p:
                self.enc(w, mod, c.t, v[c.name])

    def enc_members(self, w, r, v):
        b = r.base
        ext = self.env.is_extensible(r)
        additions = list(b.ext or [])
        add_present = []
        for a in additions:
            if isinstance(a, Group):
                add_present.append(any(c.name in v for c in a.comps))
            else:
                add_present.append(a.name in v)
                if a.name in v and a.has_default and self.is_default(r.mod, a, v[a.name]):
                    raise Undecided('extension addition with DEFAULT equal to its default')
        any_add = any(add_present)
        if ext:
            w.bits(1 if any_add else 0, 1)
        self.enc_comps(w, r.mod, self.root_order(r), v)
        if any_add:
            self.nslen(w, len(additions))
            for p in add_present:
                w.bits(1 if p else 0, 1)
            for a, p in zip(additions, add_present):
                if not p:
                    continue
                inner = W(self.aligned)
                if isinstance(a, Group):
                    self.enc_comps(inner, r.mod, a.comps, v)
                else:
                    self.enc(inner, r.mod, a.t, v[a.name])
                self.open_type(w, inner)

    def enc_choice(self, w, r, v):
        b = r.base
        ext = self.env.is_extensible(r)
        auto = tagging.component_autotags(self.env, r.mod, b)
        root = list(b.comps or [])
        adds = flat_additions(b)
        names_root = [c.name for c in root]
        if v[0] in names_root:
            if ext:
                w.bits(0, 1)
            order = sorted(root, key=lambda c: tagging.tag_key(tagging.min_tag(self.env, r.mod, c.t, auto.get(c.name))))
            idx = [c.name for c in order].index(v[0])
            self.cwn(w, idx, 0, len(order) - 1)
            c = order[idx]
            self.enc(w, r.mod, c.t, v[1])
        else:
            if not ext:
                raise Undecided('unknown alternative')
            idx = [c.name for c in adds].index(v[0])
            w.bits(1, 1)
            self.nsnn(w, idx)
            inner = W(self.aligned)
            self.enc(inner, r.mod, adds[idx].t, v[1])
            self.open_type(w, inner)


# ---------------------------------------------------------------------------
# X.691 Annex A worked examples A.1-A.4: specifications written in my AST, values and
# hexadecimal encodings as printed in the Recommendation (the same vectors are pinned by
# the repository in tests/test_per.py and tests/test_uper.py, test_x691_a1..a4).

def _annex_spec(variant):
    """variant 1: no constraints, 2: constraints, 3: extensions."""
    def ns(size=None):
        t = T('REF', ref='NameString')
        if size is not None:
            t.size = size
        return t
    ext = [] if variant == 3 else None
    if variant == 1:
        namestring = T('VisibleString')
        date = T('VisibleString', tag=Tag(APPLICATION, 3, 'IMPLICIT'))
        number = T('INTEGER', tag=Tag(APPLICATION, 2, 'IMPLICIT'))
    elif variant == 2:
        namestring = T('VisibleString', alpha=Alpha([('a', 'z'), ('A', 'Z'), '-.']), size=Range(1, 64))
        date = T('VisibleString', alpha=Alpha([('0', '9')]), size=Range(8, 8), tag=Tag(APPLICATION, 3, 'IMPLICIT'))
        number = T('INTEGER', tag=Tag(APPLICATION, 2, 'IMPLICIT'))
    else:
        namestring = T('VisibleString', alpha=Alpha([('a', 'z'), ('A', 'Z'), '-.']), size=Range(1, 64, ext=True))
        date = T('VisibleString', alpha=Alpha([('0', '9')]), size=Range(8, 8, ext=True, more=(9, 20)),
                 tag=Tag(APPLICATION, 3, 'IMPLICIT'))
        number = T('INTEGER', tag=Tag(APPLICATION, 2, 'IMPLICIT'), rng=Range(0, 9999, ext=True))
    name = T('SEQUENCE', tag=Tag(APPLICATION, 1, 'IMPLICIT'), ext=ext,
             comps=[Comp('givenName', ns()), Comp('initial', ns() if variant == 1 else ns(Range(1, 1))),
                    Comp('familyName', ns())])
    child = T('SET', comps=[Comp('name', T('REF', ref='Name')),
                            Comp('dateOfBirth', T('REF', ref='Date', tag=Tag(CONTEXT, 0)))])
    children = T('SEQUENCE OF', elem=T('REF', ref='ChildInformation'), tag=Tag(CONTEXT, 3, 'IMPLICIT'))
    if variant == 3:
        sex = T('ENUMERATED', tag=Tag(CONTEXT, 1, 'IMPLICIT'),
                enum_root=[('male', 1, 1), ('female', 2, 2), ('unknown', 3, 3)])
        child.ext = [Comp('sex', sex, optional=True)]
        children.size = Range(2, 2, ext=True)
        children_comp = Comp('children', children, optional=True)
    else:
        children_comp = Comp('children', children, default=[], default_txt='{}')
    pr = T('SET', tag=Tag(APPLICATION, 0, 'IMPLICIT'), ext=ext, comps=[
        Comp('name', T('REF', ref='Name')),
        Comp('title', T('VisibleString', tag=Tag(CONTEXT, 0))),
        Comp('number', T('REF', ref='EmployeeNumber')),
        Comp('dateOfHire', T('REF', ref='Date', tag=Tag(CONTEXT, 1))),
        Comp('nameOfSpouse', T('REF', ref='Name', tag=Tag(CONTEXT, 2))),
        children_comp])
    m = Module('X691-A', tags=None)
    for nm, ty in [('PersonnelRecord', pr), ('ChildInformation', child), ('Name', name),
                   ('EmployeeNumber', number), ('Date', date), ('NameString', namestring)]:
        m.assigns.append(Assign('type', nm, ty))
    return Spec([m]), 'PersonnelRecord'


def _annex_a4():
    c = T('CHOICE', comps=[Comp('d', T('INTEGER'))],
          ext=[Group([Comp('e', T('BOOLEAN')), Comp('f', T('IA5String'))])])
    ax = T('SEQUENCE', comps=[Comp('a', T('INTEGER', rng=Range(250, 253))), Comp('b', T('BOOLEAN')), Comp('c', c)],
           ext=[Group([Comp('g', T('NumericString', size=Range(3, 3))), Comp('h', T('BOOLEAN'), optional=True)])],
           comps2=[Comp('i', T('BMPString'), optional=True), Comp('j', T('PrintableString'), optional=True)])
    m = Module('X691-A4', tags='AUTOMATIC')
    m.assigns.append(Assign('type', 'Ax', ax))
    return Spec([m]), 'Ax'


def _annex_value(variant):
    import copy
    v = {
        'name': {'givenName': 'John', 'initial': 'P', 'familyName': 'Smith'},
        'title': 'Director', 'number': 51, 'dateOfHire': '19710917',
        'nameOfSpouse': {'givenName': 'Mary', 'initial': 'T', 'familyName': 'Smith'},
        'children': [
            {'name': {'givenName': 'Ralph', 'initial': 'T', 'familyName': 'Smith'}, 'dateOfBirth': '19571111'},
            {'name': {'givenName': 'Susan', 'initial': 'B', 'familyName': 'Jones'}, 'dateOfBirth': '19590717'}]}
    if variant == 3:
        v['children'][1]['sex'] = 'female'
    return v


ANNEX_VECTORS = [
    (1, True, '80044a6f686e015005536d6974680133084469726563746f72083139373130393137044d617279015405536d697468020552616c7068015405536d69746808313935373131313105537573616e0142054a6f6e6573083139353930373137'),
    (1, False, '824adfa3700d005a7b74f4d0026611134f2cb8fa6fe410c5cb762c1cb16e09370f2f20350169edd3d340102d2c3b386801a80b4f6e9e9a0218b96add8b162c4169f5e787700c20595bf765e610c5cb572c1bb16e'),
    (2, True, '864a6f686e5010536d6974680133084469726563746f72197109170c4d6172795410536d697468021052616c70685410536d6974681957111110537573616e42104a6f6e657319590717'),
    (2, False, '865d51d2888a5125f180998444d3cb2e3e9bf90cb8848b867396e8a88a5125f181089b93d71aa2294497c632ae222222985ce521885d54c170cac838b8'),
    (3, True, '40c04a6f686e5008536d697468000033084469726563746f720019710917034d6172795408536d697468010052616c70685408536d69746800195711118200537573616e42084a6f6e65730019590717010140'),
    (3, False, '40cbaa3a5108a5125f180330889a7965c7d37f20cb8848b819ce5ba2a114a24be30113727ae3542294497c619571111822985ce521842eaa60b832b20e2e020280'),
    (4, True, '9e000180010291a4'),
    (4, False, '9e000600040a4690'),
]


def selftest():
    """-> (list of failures, number of vectors passed, number undecided by the model)"""
    bad = []
    passed = 0
    undecided = 0
    for variant, aligned, exp in ANNEX_VECTORS:
        if variant == 4:
            spec, tname = _annex_a4()
            value = {'a': 253, 'b': True, 'c': ('e', True), 'g': '123', 'h': True}
        else:
            spec, tname = _annex_spec(variant)
            value = _annex_value(variant)
        env = Env(spec)
        m = spec.modules[0]
        t = m.find(tname).t
        label = 'Annex A.{} {}'.format(variant, 'ALIGNED' if aligned else 'UNALIGNED')
        try:
            got = Per(env, aligned).encode(m, t, value).hex()
        except Undecided as e:
            undecided += 1
            continue
        except Exception as e:
            bad.append('{}: {}: {}'.format(label, type(e).__name__, e))
            continue
        if got != exp:
            bad.append('{}: model {} != standard {}'.format(label, got, exp))
        else:
            passed += 1
    return bad, passed, undecided
