"""Value generator, walker and abstract equality on my AST.

Values are in asn1tools' documented Python convention (docs/index.rst "Types").
"""

import math
import struct
import datetime

from .ast import (STRING_KINDS, TIME_KINDS, NODEFAULT, all_comps, flat_additions,
                  inherent_alphabet, Group)

INT_EDGES = [0, 1, -1, 2, 127, 128, -128, -129, 255, 256, 32767, 32768, -32768, -32769,
             65535, 65536, 2 ** 31 - 1, 2 ** 31, -2 ** 31, -2 ** 31 - 1, 2 ** 32 - 1, 2 ** 32,
             2 ** 63 - 1, 2 ** 63, -2 ** 63, -2 ** 63 - 1, 2 ** 64 - 1, 2 ** 64, 2 ** 70, -2 ** 70]
LEN_EDGES_QUICK = [0, 1, 2, 3, 15, 16, 17, 127, 128, 129, 255, 256, 300]
LEN_EDGES_THOROUGH = LEN_EDGES_QUICK + [16383, 16384, 16385, 32767, 32768, 49152, 65535, 65536, 70000]
REAL_POOL = [0.0, 1.0, -1.0, 0.1, 0.5, 255.0, 256.0, 65535.0, 1e10, 1.5e-10, 123456789.123,
             2.0 ** 52, 2.0 ** 53, 2.0 ** 64, 2.0 ** -64, 2.2250738585072014e-308, 5e-324,
             1.7976931348623157e+308, float('inf'), float('-inf'), 3.0, -0.75, 1e300, 1e-300,
             16777215.0, 1.17549435e-38, 3.4028234663852886e+38]


class Budget(object):
    """Bounds the total size of one generated value."""

    def __init__(self, n):
        self.n = n

    def take(self, k=1):
        self.n -= k
        return self.n > 0


class ValueGen(object):

    def __init__(self, env, rnd, tier='quick', max_len=None, big_len_p=0.03,
                 special_reals=True, out_of_root_p=0.15, junk_bits_p=0.0,
                 nan=False):
        self.env = env
        self.rnd = rnd
        self.tier = tier
        self.len_edges = LEN_EDGES_THOROUGH if tier == 'thorough' else LEN_EDGES_QUICK
        self.max_len = max_len if max_len is not None else (70000 if tier == 'thorough' else 300)
        self.big_len_p = big_len_p
        self.special_reals = special_reals
        self.out_of_root_p = out_of_root_p
        self.junk_bits_p = junk_bits_p
        self.nan = nan

    # -- helpers ----------------------------------------------------------
    def pick_int(self, rng):
        rnd = self.rnd
        lo, hi, ext = (None, None, False) if rng is None else (rng.lo, rng.hi, rng.ext)
        if rng is not None and ext and rnd.random() < self.out_of_root_p:
            cands = []
            if lo is not None:
                cands += [lo - 1, lo - 2, lo - 256, lo - 2 ** 32]
            if hi is not None:
                cands += [hi + 1, hi + 2, hi + 256, hi + 2 ** 32]
            if rng.more is not None:
                cands += [rng.more[0], rng.more[1]]
            if cands:
                return rnd.choice(cands)
        cands = [v for v in INT_EDGES
                 if (lo is None or v >= lo) and (hi is None or v <= hi)]
        if lo is not None:
            cands += [lo, lo, lo + 1] if (hi is None or lo + 1 <= hi) else [lo]
        if hi is not None:
            cands += [hi, hi, hi - 1] if (lo is None or hi - 1 >= lo) else [hi]
        if lo is not None and hi is not None:
            cands += [rnd.randint(lo, hi) for _ in range(3)]
            cands += [lo + d for d in (127, 128, 255, 256, 65535, 65536) if lo + d <= hi]
        elif lo is not None:
            cands += [lo + rnd.randint(0, 2 ** rnd.randint(1, 66))]
        elif hi is not None:
            cands += [hi - rnd.randint(0, 2 ** rnd.randint(1, 66))]
        else:
            cands += [rnd.randint(-2 ** 66, 2 ** 66), rnd.randint(-300, 300)]
        return rnd.choice(cands)

    def pick_len(self, size, budget, small=False):
        rnd = self.rnd
        lo, hi, ext = (0, None, False) if size is None else (size.lo or 0, size.hi, size.ext)
        cap = self.max_len
        if small or not budget.take(0):
            cap = min(cap, 4)
        if size is not None and ext and rnd.random() < self.out_of_root_p:
            cands = []
            if lo > 0:
                cands.append(lo - 1)
            if hi is not None:
                cands += [hi + 1, hi + 2]
            cands = [c for c in cands if c <= max(cap, lo + 2)]
            if cands:
                return rnd.choice(cands)
        top = hi if hi is not None else max(lo, cap)
        top_c = min(top, max(cap, lo))
        big = rnd.random() < self.big_len_p and not small
        if not big:
            top_c = min(top_c, max(lo, 300))       # lengths above 300 only with probability big_len_p
        cands = [lo, lo, top_c]
        if lo + 1 <= top_c:
            cands.append(lo + 1)
        if top_c - 1 >= lo:
            cands.append(top_c - 1)
        if big:
            cands += [e for e in self.len_edges if lo <= e <= top_c]
        else:
            cands += [e for e in self.len_edges if lo <= e <= min(top_c, 20)]
            if top_c > lo:
                cands += [rnd.randint(lo, min(top_c, lo + 12)) for _ in range(3)]
        return rnd.choice(cands)

    def string_alphabet(self, r):
        kind = r.base.kind
        if r.alpha is not None and not r.alpha.ext:
            return r.alpha.chars()
        if r.alpha is not None and r.alpha.ext:
            # extensible alphabet: stay in root most of the time
            if self.rnd.random() < 0.8:
                return r.alpha.chars()
        inh = inherent_alphabet(kind)
        if inh is not None:
            return inh
        if kind == 'BMPString':
            return ['a', 'z', 'A', '0', ' ', 'å', 'ö', '中', '￿', 'Ā', '\x00', '퟿', '']
        if kind in ('UniversalString', 'UTF8String'):
            return ['a', 'z', 'A', '0', ' ', 'å', 'ö', '中', '￿', '\U0001f600', '\U0010ffff', '\x00', '\x7f', '\x80', '߿', 'ࠀ']
        # latin-1 kinds
        return ['a', 'z', 'A', '0', ' ', 'å', 'ÿ', '\x00', '\x7f', '\x80', '~', '"', '<', '&']

    # -- main -------------------------------------------------------------
    def value(self, mod, t, depth=0, budget=None):
        if budget is None:
            budget = Budget(400)
        return self._value(mod, t, depth, budget)

    def _value(self, mod, t, depth, budget):
        rnd = self.rnd
        env = self.env
        r = env.res(mod, t)
        b = r.base
        k = b.kind
        budget.take()
        small = depth > 2 or budget.n < 100
        if k == 'BOOLEAN':
            return rnd.random() < 0.5
        if k == 'INTEGER':
            if b.nn and rnd.random() < 0.2 and r.rng is None:
                return rnd.choice(b.nn)[1]
            return self.pick_int(r.rng)
        if k == 'ENUMERATED':
            items = list(b.enum_root) + list(b.enum_ext or [])
            return rnd.choice(items)[0]
        if k == 'REAL':
            return self.pick_real(b.real_fmt)
        if k == 'NULL':
            return None
        if k == 'BIT STRING':
            n = self.pick_len(r.size, budget, small)
            budget.take(n // 8)
            data = bytearray(rnd.getrandbits(8) for _ in range((n + 7) // 8))
            if n % 8 and rnd.random() >= self.junk_bits_p:
                data[-1] &= (0xff << (8 - n % 8)) & 0xff
            if b.named_bits and n > 0 and r.size is not None and (r.size.lo or 0) > 0:
                # X.680 22.7: with a named bit list trailing 0 bits may be added or removed to meet
                # a SIZE constraint, so which lengths "satisfy" SIZE (n..) is debatable; only values
                # whose last bit is 1 are used there (DESIGN C01/C11 note)
                data[(n - 1) // 8] |= 0x80 >> ((n - 1) % 8)
            elif b.named_bits and n > 0 and rnd.random() < 0.5:
                # make trailing zero bits likely
                z = rnd.randint(1, min(n, 10))
                for i in range(n - z, n):
                    data[i // 8] &= ~(0x80 >> (i % 8)) & 0xff
            return (bytes(data), n)
        if k == 'OCTET STRING':
            n = self.pick_len(r.size, budget, small)
            budget.take(n // 8)
            return bytes(rnd.getrandbits(8) for _ in range(n))
        if k == 'OBJECT IDENTIFIER':
            return self.pick_oid()
        if k in STRING_KINDS:
            alpha = self.string_alphabet(r)
            n = self.pick_len(r.size, budget, small)
            budget.take(n // 8)
            if rnd.random() < 0.3:
                edge = [alpha[0], alpha[-1]]
                return ''.join(rnd.choice(edge) for _ in range(n))
            return ''.join(rnd.choice(alpha) for _ in range(n))
        if k == 'UTCTime':
            return datetime.datetime(rnd.choice([1970, 1999, 2000, 2018, 2049, 2068]),
                                     rnd.randint(1, 12), rnd.randint(1, 28),
                                     rnd.randint(0, 23), rnd.randint(0, 59),
                                     rnd.choice([0, 1, 30, 59]))
        if k == 'GeneralizedTime':
            return datetime.datetime(rnd.choice([1000, 1970, 1999, 2000, 2018, 2100, 9999]),
                                     rnd.randint(1, 12), rnd.randint(1, 28),
                                     rnd.randint(0, 23), rnd.randint(0, 59),
                                     rnd.choice([0, 1, 30, 59]),
                                     rnd.choice([0, 0, 500000, 123000, 1, 999999]))
        if k in ('SEQUENCE', 'SET'):
            out = {}
            for c in all_comps(b):
                if c.optional:
                    if depth >= 4 or not budget.take(0) or rnd.random() < 0.4:
                        continue
                elif c.has_default:
                    x = rnd.random()
                    if depth >= 4 or x < 0.3:
                        continue
                    if x < 0.55:
                        out[c.name] = c.default
                        continue
                out[c.name] = self._value(r.mod, c.t, depth + 1, budget)
            # an extension addition group is present only as a whole: if any
            # member of a group is present, mandatory members must be too (they
            # are: mandatory members are always generated).
            return out
        if k == 'CHOICE':
            comps = all_comps(b)
            if depth >= 4 or not budget.take(0):
                c = comps[0]
            else:
                c = rnd.choice(comps)
            return (c.name, self._value(r.mod, c.t, depth + 1, budget))
        if k in ('SEQUENCE OF', 'SET OF'):
            size = r.size
            if depth >= 4 or not budget.take(0):
                n = (size.lo or 0) if size is not None else 0
            else:
                n = self.pick_len(size, budget, small or self._elem_heavy(r.mod, b.elem))
            out = []
            for _ in range(n):
                out.append(self._value(r.mod, b.elem, depth + 1, budget))
            if k == 'SET OF' and n > 1 and rnd.random() < 0.3:
                out[-1] = out[0]
            return out
        raise AssertionError('kind ' + k)

    def _elem_heavy(self, mod, t):
        r = self.env.res(mod, t)
        return r.base.kind in ('SEQUENCE', 'SET', 'CHOICE', 'SEQUENCE OF', 'SET OF')

    def pick_real(self, fmt):
        rnd = self.rnd
        x = rnd.random()
        if fmt == 'binary32':
            if x < 0.5:
                v = rnd.choice([0.0, 1.0, -1.0, 0.5, 255.0, 16777215.0, 1.17549435e-38,
                                3.4028234663852886e+38, 1.401298464324817e-45, 0.15625])
                v = struct.unpack('>f', struct.pack('>f', v))[0]       # exactly representable in binary32
            else:
                v = struct.unpack('>f', struct.pack('>I', rnd.getrandbits(32)))[0]
                if math.isnan(v) or math.isinf(v):
                    v = 1.0
            return v
        if x < 0.45:
            v = rnd.choice(REAL_POOL)
            if not self.special_reals and (math.isinf(v)):
                v = 1.0
            return v
        if x < 0.55:
            # odd mantissa times a power of two at the exponent-width boundaries of X.690 8.5.7 (one octet: -128..127)
            m = rnd.choice([1, 1, 3, 5, 255, 2 ** 52 + 1, rnd.getrandbits(20) | 1])
            e = rnd.choice([-131, -130, -129, -128, -127, -126, 125, 126, 127, 128, 129, 130, -1022, 900]) - rnd.choice([0, 0, m.bit_length() - 1])
            try:
                v = math.ldexp(float(m), e)
            except OverflowError:
                v = float(m)
            if math.isinf(v) or v == 0.0:
                v = float(m)
            return v if rnd.random() < 0.7 else -v
        if x < 0.7:
            return float(rnd.randint(-10 ** 6, 10 ** 6))
        if x < 0.8:
            return rnd.randint(-1000, 1000) / 8.0
        v = struct.unpack('>d', struct.pack('>Q', rnd.getrandbits(64)))[0]
        if math.isnan(v):
            v = float('nan') if self.nan else 1.0
        if math.isinf(v) and not self.special_reals:
            v = 1.0
        if v == 0.0:
            v = 0.0
        return v

    def pick_oid(self):
        rnd = self.rnd
        a = rnd.choice([0, 1, 2])
        if a == 2:
            b = rnd.choice([0, 1, 39, 40, 47, 48, 999, 5, 100, 16383, 2 ** 31])
        else:
            b = rnd.choice([0, 1, 39, 5, 20])
        arcs = [a, b]
        for _ in range(rnd.choice([0, 1, 2, 3, 8])):
            arcs.append(rnd.choice([0, 1, 127, 128, 16383, 16384, 2 ** 31, 2 ** 64, 113549, 3]))
        return '.'.join(str(x) for x in arcs)


# --------------------------------------------------------------------------
# walking and canonical form

def walk(env, mod, t, v, path=()):
    """Yield (resolved, value, path) for every node of value v of type t."""
    r = env.res(mod, t)
    yield r, v, path
    k = r.base.kind
    if k in ('SEQUENCE', 'SET'):
        if isinstance(v, dict):
            for c in all_comps(r.base):
                if c.name in v:
                    for x in walk(env, r.mod, c.t, v[c.name], path + (c.name,)):
                        yield x
    elif k == 'CHOICE':
        if isinstance(v, tuple) and len(v) == 2:
            for c in all_comps(r.base):
                if c.name == v[0]:
                    for x in walk(env, r.mod, c.t, v[1], path + (c.name,)):
                        yield x
    elif k in ('SEQUENCE OF', 'SET OF'):
        if isinstance(v, list):
            for i, e in enumerate(v):
                for x in walk(env, r.mod, r.base.elem, e, path + (i,)):
                    yield x


def walk_types(env, mod, t, seen=None, path=()):
    """Yield (resolved, path, comp-or-None) for every type node reachable from t (each named type once)."""
    if seen is None:
        seen = set()
    r = env.res(mod, t)
    yield r, path, None
    key = id(r.base)
    if key in seen:
        return
    seen.add(key)
    k = r.base.kind
    if k in ('SEQUENCE', 'SET', 'CHOICE'):
        for c in all_comps(r.base):
            for x in walk_types(env, r.mod, c.t, seen, path + (c.name,)):
                yield x
    elif k in ('SEQUENCE OF', 'SET OF'):
        for x in walk_types(env, r.mod, r.base.elem, seen, path + ('*',)):
            yield x


def enum_number(base, name):
    for n, _, val in list(base.enum_root) + list(base.enum_ext or []):
        if n == name:
            return val
    raise KeyError(name)


def to_numeric(env, mod, t, v):
    """Convert a value in name convention to the numeric_enums=True convention."""
    r = env.res(mod, t)
    k = r.base.kind
    if k == 'ENUMERATED':
        return enum_number(r.base, v) if isinstance(v, str) else v
    if k in ('SEQUENCE', 'SET'):
        out = {}
        for c in all_comps(r.base):
            if c.name in v:
                out[c.name] = to_numeric(env, r.mod, c.t, v[c.name])
        return out
    if k == 'CHOICE':
        for c in all_comps(r.base):
            if c.name == v[0]:
                return (v[0], to_numeric(env, r.mod, c.t, v[1]))
        return v
    if k in ('SEQUENCE OF', 'SET OF'):
        return [to_numeric(env, r.mod, r.base.elem, e) for e in v]
    return v


def float_key(x):
    if isinstance(x, int) and not isinstance(x, bool):
        x = float(x)
    if not isinstance(x, float):
        return ('notfloat', repr(x))
    if math.isnan(x):
        return ('nan',)
    if x == 0.0:
        return ('f', 0)
    return ('f', struct.unpack('>Q', struct.pack('>d', x))[0])


def clean_bits(data, nbits, named):
    data = bytearray(data)[:(nbits + 7) // 8]
    if len(data) * 8 < nbits:
        return ('short', bytes(data), nbits)
    if nbits % 8:
        data[-1] &= (0xff << (8 - nbits % 8)) & 0xff
    if named:
        while nbits > 0 and not (data[(nbits - 1) // 8] & (0x80 >> ((nbits - 1) % 8))):
            nbits -= 1
        data = data[:(nbits + 7) // 8]
    return (bytes(data), nbits)


def canon(env, mod, t, v, numeric=False):
    """Canonical hashable form of abstract value v (C01's equality):
    absent DEFAULT == default, SET OF as multiset, named-bit BIT STRING modulo
    trailing zero bits, unused bits ignored, -0.0 == 0.0, NaN == NaN."""
    r = env.res(mod, t)
    b = r.base
    k = b.kind
    try:
        if k == 'REAL':
            return float_key(v)
        if k == 'BIT STRING':
            return ('bits',) + tuple(clean_bits(v[0], v[1], bool(b.named_bits)))
        if k == 'OCTET STRING':
            return ('oct', bytes(v))
        if k in ('SEQUENCE', 'SET'):
            out = []
            names = set()
            for c in all_comps(b):
                names.add(c.name)
                if c.name in v:
                    out.append((c.name, canon(env, r.mod, c.t, v[c.name], numeric)))
                elif c.has_default:
                    d = c.default
                    if numeric:
                        d = to_numeric(env, r.mod, c.t, d)
                    out.append((c.name, canon(env, r.mod, c.t, d, numeric)))
            extra = sorted(set(v) - names)
            if extra:
                out.append(('?extra', tuple(extra)))
            return ('seq', tuple(out))
        if k == 'CHOICE':
            if v[0] is None:
                return ('choice', None, None)
            for c in all_comps(b):
                if c.name == v[0]:
                    return ('choice', v[0], canon(env, r.mod, c.t, v[1], numeric))
            return ('choice?', repr(v))
        if k == 'SEQUENCE OF':
            return ('list', tuple(canon(env, r.mod, b.elem, e, numeric) for e in v))
        if k == 'SET OF':
            items = [canon(env, r.mod, b.elem, e, numeric) for e in v]
            return ('bag', tuple(sorted(items, key=repr)))
        if k in TIME_KINDS:
            if isinstance(v, datetime.datetime) and v.tzinfo is not None:
                v = (v - v.utcoffset()).replace(tzinfo=None)
            return ('time', v)
        if k == 'BOOLEAN':
            return ('bool', v) if isinstance(v, bool) else ('notbool', repr(v))
        if k == 'INTEGER':
            return ('int', v) if isinstance(v, int) and not isinstance(v, bool) else ('notint', repr(v))
        return (k, v)
    except (TypeError, IndexError, KeyError, AttributeError) as e:
        return ('?malformed', k, repr(v))


def equal(env, mod, t, a, b, numeric=False):
    return canon(env, mod, t, a, numeric) == canon(env, mod, t, b, numeric)


def first_diff(env, mod, t, a, b, numeric=False, path=()):
    """Locate the first node where abstract values a and b differ.
    -> None or (path tuple, kind of the node's type, repr a, repr b)."""
    if canon(env, mod, t, a, numeric) == canon(env, mod, t, b, numeric):
        return None
    r = env.res(mod, t)
    k = r.base.kind
    try:
        if k in ('SEQUENCE', 'SET') and isinstance(a, dict) and isinstance(b, dict):
            for c in all_comps(r.base):
                av = a.get(c.name, NODEFAULT)
                bv = b.get(c.name, NODEFAULT)
                if c.has_default:
                    d = to_numeric(env, r.mod, c.t, c.default) if numeric else c.default
                    if av is NODEFAULT:
                        av = d
                    if bv is NODEFAULT:
                        bv = d
                if av is NODEFAULT and bv is NODEFAULT:
                    continue
                if av is NODEFAULT or bv is NODEFAULT:
                    return (path + (c.name,), 'presence:' + env.res(r.mod, c.t).base.kind,
                            'absent' if av is NODEFAULT else repr(av)[:80],
                            'absent' if bv is NODEFAULT else repr(bv)[:80])
                d = first_diff(env, r.mod, c.t, av, bv, numeric, path + (c.name,))
                if d:
                    return d
        elif k == 'CHOICE' and a[0] == b[0]:
            for c in all_comps(r.base):
                if c.name == a[0]:
                    return first_diff(env, r.mod, c.t, a[1], b[1], numeric, path + (c.name,))
        elif k == 'SEQUENCE OF' and len(a) == len(b):
            for i, (x, y) in enumerate(zip(a, b)):
                d = first_diff(env, r.mod, r.base.elem, x, y, numeric, path + (i,))
                if d:
                    return d
    except Exception:
        pass
    return (path, k + common_sig(r), repr(a)[:120], repr(b)[:120])


def common_sig(r):
    s = ''
    if r.rng is not None:
        s += '(range{})'.format(',ext' if r.rng.ext else '')
    if r.size is not None:
        s += '(size{})'.format(',ext' if r.size.ext else '')
    if r.alpha is not None:
        s += '(from)'
    if r.base.kind == 'BIT STRING' and r.base.named_bits:
        s += '{named}'
    return s
