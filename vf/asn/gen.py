"""Random ASN.1 specification generator producing my own AST.

Only X.680-legal modules are produced (distinct tags where required etc.); the
result is re-checked by tagging.check_distinct before use.
"""

from .ast import (T, Comp, Group, Range, Alpha, Tag, Module, Spec, Assign, Env, NODEFAULT,
                  STRING_KINDS, CONTEXT, APPLICATION, PRIVATE, UNIVERSAL, all_comps,
                  flat_additions, inherent_alphabet, NUMERIC_ALPHABET, PRINTABLE_ALPHABET)
from . import tagging
from .text import bstring, hstring, cstring

PRIMS = ['BOOLEAN', 'INTEGER', 'ENUMERATED', 'REAL', 'NULL', 'BIT STRING', 'OCTET STRING',
         'OBJECT IDENTIFIER', 'UTF8String', 'NumericString', 'PrintableString', 'IA5String',
         'VisibleString', 'BMPString', 'UniversalString', 'GeneralString', 'GraphicString',
         'TeletexString', 'UTCTime', 'GeneralizedTime']
CONSTR = ['SEQUENCE', 'SET', 'CHOICE', 'SEQUENCE OF', 'SET OF']

RESERVED = {'END', 'SEQUENCE', 'ENUMERATED', 'WITH', 'SET', 'CHOICE', 'OF', 'TRUE', 'FALSE', 'NULL',
            'MIN', 'MAX', 'ALL', 'SIZE', 'FROM', 'REAL', 'INTEGER', 'BOOLEAN', 'OPTIONAL', 'DEFAULT'}

WIDTHS = [1, 2, 3, 4, 7, 8, 15, 16, 17, 100, 127, 128, 129, 254, 255, 256, 257, 258, 1000,
          65534, 65535, 65536, 65537, 65538, 2 ** 24, 2 ** 31, 2 ** 32 - 1, 2 ** 32, 2 ** 32 + 1,
          2 ** 63, 2 ** 64 - 1, 2 ** 64, 2 ** 64 + 1]


class Profile(object):
    """Knobs of the generator.  Checks derive their own profiles."""

    def __init__(self, **kw):
        self.prims = {k: 1.0 for k in PRIMS}
        self.prims.update({'INTEGER': 3.0, 'BOOLEAN': 1.5, 'ENUMERATED': 1.5, 'OCTET STRING': 1.5,
                           'BIT STRING': 1.5, 'UTCTime': 0.3, 'GeneralizedTime': 0.3,
                           'GeneralString': 0.4, 'GraphicString': 0.4, 'TeletexString': 0.4})
        self.constr = {'SEQUENCE': 3.0, 'SET': 1.0, 'CHOICE': 1.5, 'SEQUENCE OF': 1.5, 'SET OF': 0.7}
        self.max_depth = 3
        self.n_types = (2, 7)
        self.max_comps = 6
        self.p_constructed_top = 0.7
        self.p_constructed = 0.35
        self.p_ref = 0.25
        self.p_recursive = 0.15
        self.p_optional = 0.25
        self.p_default = 0.2
        self.p_ext = 0.3
        self.p_group = 0.3
        self.p_root2 = 0.0
        self.p_ext_end = 0.15
        self.p_empty_additions = 0.25
        self.p_range = 0.6
        self.p_size = 0.5
        self.p_alpha = 0.3
        self.p_cons_ext = 0.2
        self.p_cons_more = 0.3
        self.p_bound_ref = 0.15      # bound given by value reference / named number
        self.p_minmax = 0.1
        self.p_named = 0.3           # named numbers / named bits
        self.p_enum_ext = 0.3
        self.p_enum_explicit = 0.4
        self.p_multi_module = 0.2
        self.p_type_tag = 0.15       # tag on a type assignment / element / use
        self.p_comp_tags = 0.3       # manual component tags in a constructed type
        self.p_ext_implied = 0.08
        self.p_reconstrain = 0.3     # constraint on a type reference
        self.p_big_size = 0.05
        self.p_components_of = 0.0
        self.p_alias = 0.06           # type assignment that is a bare type reference (chains of references)
        self.p_twin_member = 0.12     # reuse (member name, referenced type) of an earlier member with another DEFAULT/OPTIONAL
        self.tag_defaults = [None, 'AUTOMATIC', 'AUTOMATIC', 'IMPLICIT', 'EXPLICIT']
        self.high_tags = False
        self.default_kinds = {'BOOLEAN', 'INTEGER', 'ENUMERATED', 'BIT STRING', 'OCTET STRING',
                              'STRING', 'SEQUENCE OF'}
        self.real_fmt = False        # REAL WITH COMPONENTS binary32/64
        self.size_on_ref = True
        self.hyphen_names = True
        self.min_size_lo = None      # force SIZE lower bounds >= this (unused)
        self.bounded_only = False    # C subset: everything bounded
        for k, v in kw.items():
            if not hasattr(self, k):
                raise AttributeError(k)
            setattr(self, k, v)

    def only(self, prims=None, constr=None):
        if prims is not None:
            self.prims = {k: v for k, v in self.prims.items() if k in prims}
        if constr is not None:
            self.constr = {k: v for k, v in self.constr.items() if k in constr}
        return self


def wchoice(rnd, weights):
    items = sorted(weights.items())
    tot = sum(w for _, w in items)
    x = rnd.random() * tot
    for k, w in items:
        x -= w
        if x <= 0:
            return k
    return items[-1][0]


class Gen(object):

    def __init__(self, rnd, profile=None):
        self.rnd = rnd
        self.p = profile or Profile()
        self.counter = 0
        self.features = {}
        self.at_top = False
        self.twins = []

    def feat(self, name):
        self.features[name] = self.features.get(name, 0) + 1

    # ---- names
    def ident(self, used, base='f'):
        rnd = self.rnd
        while True:
            self.counter += 1
            stem = rnd.choice(['a', 'b', 'c', 'x', 'y', 'item', 'val', 'id', 'n', 'flag', 'data'])
            name = '{}{}'.format(stem, rnd.choice(['', '', str(self.counter % 10)]))
            if self.p.hyphen_names and rnd.random() < 0.1:
                name += '-' + rnd.choice(['x', 'lo', 'v2'])
            if name not in used and name.upper() not in RESERVED:
                used.add(name)
                return name

    # ---- module level
    def spec(self):
        rnd, p = self.rnd, self.p
        nmod = 1
        if rnd.random() < p.p_multi_module:
            nmod = rnd.choice([2, 2, 3])
            self.feat('multi_module')
        mods = []
        self.type_pool = []      # [(module index, name)] types generated so far (all modules)
        self.val_pool = {}       # module name -> [(name, int)]
        for mi in range(nmod):
            m = Module('Mod{}'.format(chr(ord('A') + mi)) if nmod > 1 else 'M',
                       tags=rnd.choice(p.tag_defaults),
                       ext_implied=rnd.random() < p.p_ext_implied)
            if m.ext_implied:
                self.feat('ext_implied')
            self.feat('tags_' + str(m.tags))
            mods.append(m)
        spec = Spec(mods)
        self.specobj = spec
        for mi, m in enumerate(mods):
            self.cur = m
            self.cur_index = mi
            self.imports_needed = {}
            # value assignments usable as bounds
            vals = []
            if rnd.random() < 0.6:
                for i in range(rnd.randint(1, 3)):
                    v = rnd.choice([0, 1, 2, 3, 5, 7, 8, 10, 15, 16, 20, 63, 64, 100, 255, 256, 1000, -1, -5, -128, 65535])
                    name = 'v{}{}'.format(chr(ord('a') + mi), i)
                    vals.append((name, v))
                    m.assigns.append(Assign('value', name, T('INTEGER'), v, str(v)))
            self.val_pool[m.name] = vals
            n = rnd.randint(*p.n_types)
            names = []
            for i in range(n):
                nm = 'T{}{}'.format(chr(ord('a') + mi) if nmod > 1 else '', i)
                if p.hyphen_names and rnd.random() < 0.08:
                    nm += '-X'
                names.append(nm)
            self.future = names
            for i, nm in enumerate(names):
                self.cur_type_index = i
                self.cur_names = names
                top_constr = rnd.random() < p.p_constructed_top
                t = None
                if self.type_pool and rnd.random() < p.p_alias:
                    t = self.gen_ref(False)            # A ::= B: a type assignment that is only a (constrained) reference
                    if t is not None:
                        self.feat('alias_type')
                if t is None:
                    t = self.gen_type(0, top=True, want_constructed=top_constr)
                if rnd.random() < p.p_type_tag and t.tag is None and t.kind != 'CHOICE':
                    t.tag = self.rand_tag(allow_universal=False)
                    self.feat('type_assignment_tag')
                m.assigns.append(Assign('type', nm, t))
                self.type_pool.append((mi, nm))
            for frm, nms in sorted(self.imports_needed.items()):
                m.imports.append((sorted(nms), frm))
        env = Env(spec)
        self.fix_tags(env)
        return spec

    def rand_tag(self, allow_universal=False):
        rnd = self.rnd
        cls = rnd.choice([CONTEXT, CONTEXT, CONTEXT, APPLICATION, PRIVATE])
        if self.p.high_tags and rnd.random() < 0.4:
            num = rnd.choice([30, 31, 32, 127, 128, 255, 16383, 16384, 2 ** 21 - 1, 2 ** 21, 2 ** 28])
            self.feat('high_tag')
        else:
            num = rnd.randint(0, 12)
        mode = rnd.choice([None, None, 'IMPLICIT', 'EXPLICIT'])
        return Tag(cls, num, mode)

    # ---- types
    def gen_type(self, depth, top=False, want_constructed=None, guard=False, allow_null=True):
        """guard=True: position where forward/self references are allowed."""
        rnd, p = self.rnd, self.p
        # reference?
        if not top and rnd.random() < p.p_ref:
            t = self.gen_ref(guard)
            if t is not None:
                return t
        if want_constructed is None:
            want_constructed = depth < p.max_depth and rnd.random() < p.p_constructed
        if want_constructed and p.constr and depth < p.max_depth + (1 if top else 0):
            k = wchoice(rnd, p.constr)
            return getattr(self, 'gen_' + k.lower().replace(' ', '_'))(depth)
        k = wchoice(rnd, p.prims)
        self.at_top = top
        try:
            return self.gen_prim(k)
        finally:
            self.at_top = False

    def gen_ref(self, guard):
        rnd, p = self.rnd, self.p
        cands = list(self.type_pool)
        t = None
        if guard and rnd.random() < p.p_recursive * 2:
            # forward or self reference within the current module
            nm = rnd.choice(self.cur_names[self.cur_type_index:])
            self.feat('recursive_ref')
            t = T('REF', ref=nm)
            return t
        if not cands:
            return None
        mi, nm = rnd.choice(cands)
        t = T('REF', ref=nm)
        if mi != self.cur_index:
            frm = self.specobj.modules[mi].name
            self.imports_needed.setdefault(frm, set()).add(nm)
            self.feat('imported_ref')
        self.feat('ref')
        # optional re-constraint on the reference (child subset of parent)
        if rnd.random() < p.p_reconstrain:
            self.reconstrain(t, mi)
        return t

    def reconstrain(self, t, mi):
        """Put a narrower constraint on reference t (INTEGER range or SIZE)."""
        rnd = self.rnd
        env = Env(self.specobj)
        try:
            r = env.res(self.specobj.modules[mi], T('REF', ref=t.ref))
        except KeyError:
            return
        k = r.base.kind
        if k == 'INTEGER':
            par = r.rng
            if par is not None and par.ext:
                return   # see DESIGN C11: extensible stacked on constrained is not generated
            lo = par.lo if par is not None and par.lo is not None else -50
            hi = par.hi if par is not None and par.hi is not None else 50
            if hi - lo < 1:
                return
            a = rnd.randint(lo, min(hi, lo + 300))
            b = rnd.randint(a, min(hi, a + rnd.choice([0, 1, 5, 255, 256, 70000])))
            t.rng = Range(a, b)
            self.feat('reconstrain_int')
        elif self.p.size_on_ref and k in ('OCTET STRING', 'BIT STRING', 'IA5String', 'VisibleString',
                                          'NumericString', 'PrintableString', 'UTF8String', 'BMPString'):
            par = r.size
            if par is not None and par.ext:
                return
            if k == 'BIT STRING' and r.base.named_bits:
                return
            lo = par.lo if par is not None and par.lo is not None else 0
            hi = par.hi if par is not None and par.hi is not None else lo + 20
            if hi - lo < 1:
                return
            a = rnd.randint(lo, min(hi, lo + 10))
            b = rnd.randint(a, min(hi, a + rnd.choice([0, 1, 3, 20])))
            t.size = Range(a, b)
            self.feat('reconstrain_size')

    def bound_txt(self, v, t=None):
        """Maybe spell an integer bound as value reference / named number."""
        rnd, p = self.rnd, self.p
        if rnd.random() >= p.p_bound_ref:
            return None
        if t is not None and t.nn:
            for n, val in t.nn:
                if val == v:
                    self.feat('bound_named_number')
                    return n
        for n, val in self.val_pool.get(self.cur.name, []):
            if val == v:
                self.feat('bound_valueref')
                return n
        return None

    def int_range(self, t=None):
        rnd, p = self.rnd, self.p
        x = rnd.random()
        pool_vals = [v for _, v in self.val_pool.get(self.cur.name, [])]
        if x < p.p_minmax and not p.bounded_only:
            if rnd.random() < 0.5:
                r = Range(None, rnd.choice([0, 5, 127, 255, -1, 65535]))
            else:
                r = Range(rnd.choice([0, 1, -5, -128, 256, 65536]), None)
            self.feat('range_minmax')
        else:
            w = rnd.choice(WIDTHS)
            if p.bounded_only:
                w = rnd.choice([x for x in WIDTHS if x <= 2 ** 32])
            if pool_vals and rnd.random() < 0.3:
                lo = rnd.choice(pool_vals)
            else:
                lo = rnd.choice([0, 0, 0, 1, -1, -128, -w // 2, 5, 100, -32768, 2 ** 31, rnd.randint(-1000, 1000)])
            if p.bounded_only:
                lo = max(lo, -2 ** 63)
                if lo + w - 1 >= 2 ** 64:
                    w = 2 ** 32
                if lo < 0 and lo + w - 1 >= 2 ** 63:
                    w = 2 ** 31
            hi = lo + w - 1
            if pool_vals and rnd.random() < 0.2:
                cand = [v for v in pool_vals if v >= lo]
                if cand:
                    hi = rnd.choice(cand)
            r = Range(lo, hi)
            self.feat('range_w{}'.format(w if w <= 65538 else 'big'))
        if r.lo is not None:
            r.lo_txt = self.bound_txt(r.lo, t)
        if r.hi is not None:
            r.hi_txt = self.bound_txt(r.hi, t)
        if rnd.random() < p.p_cons_ext and not p.bounded_only:
            r.ext = True
            self.feat('range_ext')
            if rnd.random() < p.p_cons_more and r.hi is not None:
                r.more = (r.hi + 5, r.hi + 10)
        return r

    def size_range(self, unit_cap=40, allow_ext=True):
        rnd, p = self.rnd, self.p
        x = rnd.random()
        if rnd.random() < p.p_big_size and not p.bounded_only:
            lo = rnd.choice([0, 0, 1, 2])
            if self.at_top and rnd.random() < 0.3:
                lo = rnd.choice([65535, 65536, 300])
            hi = rnd.choice([v for v in [255, 256, 65535, 65536, 65537, 100000] if v >= lo])
            self.feat('size_big')
            r = Range(lo, hi)
        elif x < 0.3:
            n = rnd.choice([0, 1, 2, 3, 4, 8, 16, 17, 24, 32, 64] if unit_cap >= 64 else [0, 1, 2, 3, 4, 5, 8])
            r = Range(n, n)
            self.feat('size_fixed')
        elif x < 0.85:
            lo = rnd.choice([0, 0, 1, 1, 2, 3, 5])
            hi = lo + rnd.choice([1, 1, 2, 3, 7, 10, 15, 16, 20, unit_cap])
            r = Range(lo, hi)
            self.feat('size_range')
        else:
            if p.bounded_only:
                r = Range(0, 10)
            else:
                r = Range(rnd.choice([0, 1, 4]), None)
                self.feat('size_lo_max')
        if r.lo is not None and r.lo > 0:
            r.lo_txt = self.bound_txt(r.lo)
        if r.hi is not None:
            r.hi_txt = self.bound_txt(r.hi)
        if allow_ext and rnd.random() < p.p_cons_ext and not p.bounded_only:
            r.ext = True
            self.feat('size_ext')
        return r

    def gen_prim(self, k):
        rnd, p = self.rnd, self.p
        t = T(k)
        self.feat('kind_' + k)
        if k == 'INTEGER':
            if rnd.random() < p.p_named:
                used = set()
                t.nn = []
                for v in sorted(set(rnd.choice([0, 1, 2, 3, 5, 10, -1, 100, 255]) for _ in range(rnd.randint(1, 3)))):
                    t.nn.append((self.ident(used), v))
                self.feat('named_numbers')
            if rnd.random() < p.p_range or p.bounded_only:
                t.rng = self.int_range(t)
        elif k == 'ENUMERATED':
            self.gen_enum(t)
        elif k == 'REAL':
            if p.real_fmt and rnd.random() < 0.6:
                t.real_fmt = rnd.choice(['binary32', 'binary64'])
                self.feat('real_' + t.real_fmt)
            elif p.bounded_only:
                t.real_fmt = 'binary64'
        elif k == 'BIT STRING':
            if rnd.random() < p.p_named and not p.bounded_only:
                used = set()
                nums = sorted(set(rnd.choice([0, 1, 2, 3, 4, 7, 8, 9, 15, 16, 31]) for _ in range(rnd.randint(1, 4))))
                t.named_bits = [(self.ident(used), v) for v in nums]
                self.feat('named_bits')
                if rnd.random() < p.p_size * 0.6:
                    top = nums[-1] + 1
                    lo = rnd.choice([0, 1, top])
                    t.size = Range(lo, max(lo, top) + rnd.choice([0, 1, 8]))
            elif rnd.random() < p.p_size or p.bounded_only:
                t.size = self.size_range(unit_cap=64)
                if p.bounded_only:
                    n = rnd.choice([1, 2, 7, 8, 9, 16, 17, 32, 33, 64])
                    t.size = Range(n, n)
        elif k == 'OCTET STRING':
            if rnd.random() < p.p_size or p.bounded_only:
                t.size = self.size_range()
        elif k in STRING_KINDS:
            if k in ('UTF8String', 'NumericString', 'PrintableString', 'IA5String', 'VisibleString',
                     'BMPString', 'UniversalString'):
                if rnd.random() < p.p_size:
                    t.size = self.size_range()
            if k in ('NumericString', 'PrintableString', 'IA5String', 'VisibleString', 'BMPString',
                     'UniversalString') and rnd.random() < p.p_alpha:
                t.alpha = self.gen_alpha(k)
        return t

    def gen_alpha(self, k):
        rnd = self.rnd
        inh = inherent_alphabet(k)
        items = []
        if k == 'NumericString':
            choices = [[('0', '9')], [('0', '1')], [('1', '8')], [' 0'], [('0', '4'), ' ']]
        elif k == 'PrintableString':
            choices = [[('A', 'Z')], [('a', 'z'), ('0', '9')], [('a', 'f')], ['abc'], [('A', 'B'), ('a', 'b')],
                       [('0', '9'), ' .-']]
        elif k in ('IA5String', 'VisibleString'):
            choices = [[('A', 'Z')], [('a', 'z'), ('0', '9')], [('a', 'p')], [('a', 'q')], ['ab'], ['a'],
                       [(' ', '~')], [('0', '9'), ('A', 'F')], ['xyz', ('a', 'c')], [('@', 'C')]]
            if k == 'IA5String':
                choices += [[('\x01', '\x7f')], [('a', 'z'), '\x7f']]
        elif k == 'BMPString':
            choices = [[('a', 'z')], [('a', 'd')], [('Ā', 'ſ')], [('0', '9'), ('a', 'f')], ['aå']]
        else:   # UniversalString
            choices = [[('a', 'z')], [('a', 'd')], ['aå'], [('0', '1')]]
        items = rnd.choice(choices)
        a = Alpha(items)
        self.feat('alpha_n{}'.format(len(a.chars())))
        return a

    def gen_enum(self, t):
        rnd, p = self.rnd, self.p
        used = set()
        n = rnd.choice([1, 2, 2, 3, 3, 4, 5, 8, 9])
        explicit = rnd.random() < p.p_enum_explicit
        root = []
        usednums = set()
        nums = []
        if explicit:
            pool = [0, 1, 2, 3, 5, 10, 127, 128, 255, 256, 32767, 32768, 65536, -1, -5, -128, -129, 1000000]
            nums = rnd.sample(pool, n)
            self.feat('enum_explicit')
        nextnum = 0
        for i in range(n):
            name = self.ident(used)
            if explicit and rnd.random() < 0.8:
                num = nums[i]
                if num in usednums:
                    continue
                root.append((name, num, num))
                usednums.add(num)
            else:
                root.append((name, None, None))
        # assign implicit numbers per X.680 19.3: successive from 0 skipping used
        root2 = []
        taken = set(x[2] for x in root if x[2] is not None)
        cur = 0
        for name, ex, val in root:
            if ex is None:
                while cur in taken:
                    cur += 1
                val = cur
                taken.add(cur)
                cur += 1
            root2.append((name, ex, val))
        t.enum_root = root2
        if rnd.random() < p.p_enum_ext:
            t.enum_ext = []
            self.feat('enum_ext')
            top = max(taken)
            for i in range(rnd.choice([0, 1, 2, 3])):
                name = self.ident(used)
                # additional enumeration: values must be increasing and unused
                if rnd.random() < 0.5:
                    top = top + rnd.choice([1, 2, 100])
                    t.enum_ext.append((name, top, top))
                else:
                    top = top + 1
                    # implicit number = smallest unused >= previous addition... keep explicit in AST value
                    t.enum_ext.append((name, top, top))

    def gen_members(self, t, depth, choice=False):
        rnd, p = self.rnd, self.p
        used = set()
        n = rnd.randint(0 if not choice else 1, p.max_comps)
        if choice:
            n = max(1, n)
        comps = []
        for i in range(n):
            comps.append(self.gen_comp(used, depth, choice, first=(i == 0)))
        t.comps = comps
        if not choice and rnd.random() < p.p_components_of:
            self.add_components_of(t, used)
        ext = rnd.random() < p.p_ext
        if ext:
            self.feat('ext_marker_' + t.kind)
            t.ext = []
            if rnd.random() >= p.p_empty_additions:
                for i in range(rnd.choice([1, 1, 2, 3, 4])):
                    if not choice and rnd.random() < p.p_group:
                        g = Group([self.gen_comp(used, depth, choice, addition=True)
                                   for _ in range(rnd.randint(1, 3))],
                                  version=rnd.choice([None, None, 2 + i]))
                        t.ext.append(g)
                        self.feat('ext_group')
                    else:
                        t.ext.append(self.gen_comp(used, depth, choice, addition=True))
                        self.feat('ext_addition')
            if not choice and rnd.random() < p.p_root2:
                t.comps2 = [self.gen_comp(used, depth, choice) for _ in range(rnd.randint(1, 2))]
                self.feat('root2')
            elif rnd.random() < p.p_ext_end:
                t.ext_end = True
        if choice and not t.comps:
            t.comps = [self.gen_comp(used, depth, True, first=True)]

    def add_components_of(self, t, used):
        """COMPONENTS OF <earlier SEQUENCE/SET type of the same kind>: the root
        components are copied into my AST (that is the X.680 meaning) and marked
        so that the printer writes the COMPONENTS OF notation."""
        import copy
        rnd = self.rnd
        cands = []
        for mi, nm in self.type_pool:
            m = self.specobj.modules[mi]
            a = m.find(nm)
            src = a.t
            if src.kind != t.kind or src.tag is not None or not src.comps or src.comps2:
                continue
            if mi != self.cur_index:
                if m.tags != self.cur.tags or m.ext_implied != self.cur.ext_implied:
                    continue
                if any(self._has_ref_or_tag(c.t) for c in src.comps):
                    continue
            if any(c.cof is not None for c in src.comps):
                continue
            if any(c.name in used for c in src.comps):
                continue
            cands.append((mi, nm, src))
        if not cands:
            return
        mi, nm, src = rnd.choice(cands)
        self.counter += 1
        gid = (nm, self.counter)
        new = []
        for c in src.comps:
            cc = copy.deepcopy(c)
            cc.cof = gid
            used.add(cc.name)
            new.append(cc)
        pos = rnd.randint(0, len(t.comps))
        t.comps[pos:pos] = new
        if mi != self.cur_index:
            self.imports_needed.setdefault(self.specobj.modules[mi].name, set()).add(nm)
            self.feat('components_of_imported')
        self.feat('components_of')

    def _has_ref_or_tag(self, t):
        if t.kind == 'REF' or t.tag is not None:
            return True
        if t.rng is not None and (t.rng.lo_txt or t.rng.hi_txt):
            return True
        if t.size is not None and (t.size.lo_txt or t.size.hi_txt):
            return True
        if t.kind in ('SEQUENCE', 'SET', 'CHOICE'):
            return any(self._has_ref_or_tag(c.t) for c in all_comps(t))
        if t.kind in ('SEQUENCE OF', 'SET OF'):
            return self._has_ref_or_tag(t.elem)
        return False

    def gen_comp(self, used, depth, choice, first=False, addition=False):
        rnd, p = self.rnd, self.p
        if not choice and self.twins and rnd.random() < p.p_twin_member:
            # the same member identifier referencing the same named type as in an earlier type,
            # with its own DEFAULT / OPTIONAL (exercises the compiled-type cache key)
            tname, tref, tmod = rnd.choice(self.twins)
            if tname not in used and tmod == self.cur_index:
                used.add(tname)
                c = Comp(tname, T('REF', ref=tref))
                if rnd.random() < 0.5:
                    self.reconstrain(c.t, self.cur_index)       # its own SIZE / range on the shared reference
                x = rnd.random()
                if x < 0.4:
                    self.maybe_default(c)
                elif x < 0.55:
                    c.optional = True
                self.feat('twin_member')
                return c
        name = self.ident(used)
        optional = False
        if not choice:
            x = rnd.random()
            optional = x < p.p_optional or (addition and x < 0.5)
        guard = optional or (choice and not first)
        ct = self.gen_type(depth + 1, guard=guard)
        c = Comp(name, ct, optional=optional)
        if not choice and not optional and rnd.random() < p.p_default:
            self.maybe_default(c)
        if (ct.kind == 'REF' and ct.tag is None and ct.rng is None and ct.size is None and len(self.twins) < 12
                and any(nm == ct.ref for mi, nm in self.type_pool)):       # completed types only: no new cycles
            self.twins.append((name, ct.ref, self.cur_index))
        return c

    def maybe_default(self, c):
        rnd, p = self.rnd, self.p
        env = Env(self.specobj)
        try:
            r = env.res(self.cur, c.t)
        except KeyError:
            return   # forward reference; no default
        b = r.base
        k = b.kind
        if k == 'BOOLEAN' and 'BOOLEAN' in p.default_kinds:
            v = rnd.random() < 0.5
            c.default, c.default_txt = v, 'TRUE' if v else 'FALSE'
        elif k == 'INTEGER' and 'INTEGER' in p.default_kinds:
            rng = r.rng
            lo = rng.lo if rng is not None and rng.lo is not None else -10
            hi = rng.hi if rng is not None and rng.hi is not None else lo + 20
            v = rnd.choice([lo, hi, max(lo, min(hi, 0)), rnd.randint(lo, min(hi, lo + 1000))])
            c.default, c.default_txt = v, str(v)
        elif k == 'ENUMERATED' and 'ENUMERATED' in p.default_kinds:
            it = rnd.choice(b.enum_root)
            c.default, c.default_txt = it[0], it[0]
        elif k == 'OCTET STRING' and 'OCTET STRING' in p.default_kinds:
            lo = r.size.lo if r.size is not None and r.size.lo else 0
            hi = r.size.hi if r.size is not None and r.size.hi is not None else lo + 4
            n = rnd.randint(lo, min(hi, lo + 4))
            if n > 16:
                return
            v = bytes(rnd.getrandbits(8) for _ in range(n))
            c.default, c.default_txt = v, hstring(v)
        elif k == 'BIT STRING' and 'BIT STRING' in p.default_kinds:
            lo = r.size.lo if r.size is not None and r.size.lo else 0
            hi = r.size.hi if r.size is not None and r.size.hi is not None else lo + 12
            n = rnd.randint(lo, min(hi, lo + 12))
            if n > 64:
                return
            if b.named_bits and rnd.random() < 0.6:
                names = rnd.sample(b.named_bits, rnd.randint(0, len(b.named_bits)))
                names = [x for x in names if x[1] < max(n, hi)]
                top = max([x[1] for x in names] + [-1]) + 1
                if top < lo:
                    return    # X.680 22.7 padding to meet SIZE: not probed (DESIGN C11 note)
                nb = max(top, lo)
                data = bytearray((nb + 7) // 8)
                for _, bit in names:
                    data[bit // 8] |= 0x80 >> (bit % 8)
                c.default = (bytes(data), nb)
                c.default_txt = '{ ' + ', '.join(x[0] for x in names) + ' }' if names else '{ }'
                self.feat('default_bits_named')
            else:
                data = bytearray(rnd.getrandbits(8) for _ in range((n + 7) // 8))
                if n % 8:
                    data[-1] &= (0xff << (8 - n % 8)) & 0xff
                c.default = (bytes(data), n)
                if n % 8 == 0 and rnd.random() < 0.4:
                    c.default_txt = hstring(data)
                    self.feat('default_bits_h')
                else:
                    c.default_txt = bstring(data, n)
                    self.feat('default_bits_b')
        elif k in STRING_KINDS and 'STRING' in p.default_kinds:
            if k in ('GeneralString', 'GraphicString', 'TeletexString'):
                return
            alpha = r.alpha.chars() if r.alpha is not None else (inherent_alphabet(k) or list('abcXYZ xyz'))
            alpha = [ch for ch in alpha if ch.isalpha() and ch.isascii()]
            if not alpha:
                return
            lo = r.size.lo if r.size is not None and r.size.lo else 0
            hi = r.size.hi if r.size is not None and r.size.hi is not None else lo + 6
            n = rnd.randint(lo, min(hi, lo + 6))
            if n > 40:
                return
            v = ''.join(rnd.choice(alpha) for _ in range(n))
            c.default, c.default_txt = v, cstring(v)
        elif k == 'SEQUENCE OF' and 'SEQUENCE OF' in p.default_kinds:
            if r.size is not None and (r.size.lo or 0) > 0:
                return
            c.default, c.default_txt = [], '{ }'
        elif k == 'REAL' and 'REAL' in p.default_kinds:
            v = rnd.choice([0.0, 1.5, -2.25, 100.0])
            c.default, c.default_txt = v, repr(v) if v != 0.0 else '0'
        if c.has_default:
            self.feat('default_' + k.replace(' ', '_'))

    def gen_sequence(self, depth):
        t = T('SEQUENCE')
        self.feat('kind_SEQUENCE')
        self.gen_members(t, depth)
        self.maybe_comp_tags(t)
        return t

    def gen_set(self, depth):
        t = T('SET')
        self.feat('kind_SET')
        self.gen_members(t, depth)
        self.maybe_comp_tags(t)
        return t

    def gen_choice(self, depth):
        t = T('CHOICE')
        self.feat('kind_CHOICE')
        self.gen_members(t, depth, choice=True)
        self.maybe_comp_tags(t)
        return t

    def maybe_comp_tags(self, t):
        rnd, p = self.rnd, self.p
        comps = all_comps(t)
        if not comps or rnd.random() >= p.p_comp_tags:
            return
        self.feat('manual_comp_tags')
        nums = list(range(len(comps)))
        x = rnd.random()
        if x < 0.3:
            rnd.shuffle(nums)
            self.feat('comp_tags_shuffled')
        elif x < 0.4 and self.p.high_tags:
            nums = sorted(rnd.sample([0, 5, 30, 31, 127, 128, 16383, 16384, 2 ** 21, 2 ** 28, 7, 9], len(comps))) \
                if len(comps) <= 12 else nums
        partial = rnd.random() < 0.25
        if any(c.cof is not None for c in comps):
            return
        for c, n in zip(comps, nums):
            if partial and rnd.random() < 0.5:
                continue
            if c.t.tag is None:
                c.t.tag = Tag(CONTEXT, n, rnd.choice([None, None, None, 'IMPLICIT', 'EXPLICIT']))

    def gen_sequence_of(self, depth, kind='SEQUENCE OF'):
        rnd, p = self.rnd, self.p
        t = T(kind)
        self.feat('kind_' + kind)
        if rnd.random() < p.p_size or p.bounded_only:
            t.size = self.size_range(unit_cap=12)
            if p.bounded_only and t.size.hi is None:
                t.size = Range(0, 5)
        guard = t.size is None or (t.size.lo or 0) == 0
        t.elem = self.gen_type(depth + 1, guard=guard)
        if rnd.random() < p.p_type_tag and t.elem.tag is None:
            t.elem.tag = self.rand_tag()
            self.feat('elem_tag')
        return t

    def gen_set_of(self, depth):
        return self.gen_sequence_of(depth, 'SET OF')

    # ---- legality
    def constructed_nodes(self, t, out):
        if t.kind in ('SEQUENCE', 'SET', 'CHOICE'):
            for c in all_comps(t):
                self.constructed_nodes(c.t, out)
            out.append(t)
        elif t.kind in ('SEQUENCE OF', 'SET OF'):
            self.constructed_nodes(t.elem, out)

    def fix_tags(self, env):
        """Make every constructed type satisfy the distinct-tag rules by adding
        context tags where needed; also remove IMPLICIT written on CHOICE uses."""
        for m in env.spec.modules:
            for a in m.assigns:
                if a.kind != 'type':
                    continue
                nodes = []
                self.constructed_nodes(a.t, nodes)
                self._strip_implicit_on_choice(env, m, a.t)
                for node in nodes:
                    for c in all_comps(node):
                        self._strip_implicit_on_choice(env, m, c.t)
        for _ in range(3):
            changed = False
            for m in env.spec.modules:
                for a in m.assigns:
                    if a.kind != 'type':
                        continue
                    nodes = []
                    self.constructed_nodes(a.t, nodes)
                    for node in nodes:
                        if not tagging.check_distinct(env, m, node):
                            for i, c in enumerate(all_comps(node)):
                                mode = None
                                c.t.tag = Tag(CONTEXT, i, mode)
                                c.cof = None      # written inline (tags cannot be put on COMPONENTS OF)
                            self.feat('tags_forced_distinct')
                            changed = True
            if not changed:
                break

    def _strip_implicit_on_choice(self, env, m, t):
        if t.tag is not None and t.tag.mode == 'IMPLICIT':
            try:
                if tagging.under_tag_is_untagged_choice(env, m, t):
                    t.tag.mode = None
            except KeyError:
                pass
        if t.kind in ('SEQUENCE OF', 'SET OF') and t.elem is not None:
            self._strip_implicit_on_choice(env, m, t.elem)


def is_legal(spec):
    env = Env(spec)
    g = Gen(None)
    for m in spec.modules:
        for a in m.assigns:
            if a.kind != 'type':
                continue
            nodes = []
            g.constructed_nodes(a.t, nodes)
            for node in nodes:
                try:
                    if not tagging.check_distinct(env, m, node):
                        return False
                except KeyError:
                    return False
    return True
