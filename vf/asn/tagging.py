"""X.680 tagging computed on my AST: effective tag layers of a type use,
automatic tagging, distinct-tag legality (X.680 25.6-25.7, 27.3, 29.3)."""

from .ast import (Tag, CONTEXT, UNIVERSAL, UNIVERSAL_TAG, CLASS_ORDER, all_comps,
                  flat_additions, Group)


def under_tag_is_untagged_choice(env, mod, t):
    """Is the type *under* t's own tag an untagged CHOICE (X.680 31.2.7 c)?"""
    # walk references as long as they carry no tag
    cur, m = t, mod
    first = True
    while True:
        if not first and cur.tag is not None:
            return False
        first = False
        if cur.kind == 'CHOICE':
            return True
        if cur.kind != 'REF':
            return False
        m, a = env.lookup(m, cur.ref)
        cur = a.t


def tag_mode(env, tag, mod, t):
    """EXPLICIT / IMPLICIT for a textual tag written in module `mod` on type t."""
    if under_tag_is_untagged_choice(env, mod, t):
        return 'EXPLICIT'
    if tag.mode:
        return tag.mode
    if mod.tags in ('IMPLICIT', 'AUTOMATIC'):
        return 'IMPLICIT'
    return 'EXPLICIT'


def automatic_applies(mod, t):
    if mod.tags != 'AUTOMATIC':
        return False
    return not any(c.t.tag is not None for c in all_comps(t))


def auto_order(t):
    """Components in the order automatic tags are assigned (X.680 25.7 / 27.x /
    29.x: root component lists first, then extension additions)."""
    return list(t.comps or []) + list(t.comps2 or []) + flat_additions(t)


def component_autotags(env, mod, t):
    """name -> (Tag, mode) for automatic tagging, {} when it does not apply."""
    if not automatic_applies(mod, t):
        return {}
    out = {}
    for i, c in enumerate(auto_order(t)):
        mode = 'EXPLICIT' if under_tag_is_untagged_choice_noself(env, mod, c.t) else 'IMPLICIT'
        out[c.name] = (Tag(CONTEXT, i), mode)
    return out


def under_tag_is_untagged_choice_noself(env, mod, t):
    """For an automatic tag placed *around* t (t itself has no tag)."""
    cur, m = t, mod
    while True:
        if cur.tag is not None:
            return False
        if cur.kind == 'CHOICE':
            return True
        if cur.kind != 'REF':
            return False
        m, a = env.lookup(m, cur.ref)
        cur = a.t


def layers(env, mod, t, outer=None):
    """Effective tag layers of type use t written in module mod.

    Returns (list of (cls, num) outermost first, resolved) where every layer
    but the last is an EXPLICIT wrapper (constructed); the last layer carries
    the base encoding.  For an untagged CHOICE the list is empty.
    `outer` = (Tag, mode) applied around t (automatic tag).
    """
    r = env.res(mod, t)
    tags = []
    if outer is not None:
        tags.append((outer[0], outer[1]))
    for tag, m, tt in r.tags:
        tags.append((tag, tag_mode(env, tag, m, tt)))
    if r.base.kind == 'CHOICE':
        cur = []
    else:
        cur = [(UNIVERSAL, UNIVERSAL_TAG[r.base.kind])]
    for tag, mode in reversed(tags):
        if mode == 'IMPLICIT' and cur:
            cur[0] = (tag.cls, tag.num)
        else:
            cur.insert(0, (tag.cls, tag.num))
    return cur, r


def outer_tags(env, mod, t, outer=None, _seen=None):
    """Set of possible outermost tags of type use t (CHOICE: union)."""
    ls, r = layers(env, mod, t, outer)
    if ls:
        return {ls[0]}
    # untagged CHOICE
    out = set()
    if _seen is None:
        _seen = set()
    if id(r.base) in _seen:
        return out
    _seen.add(id(r.base))
    auto = component_autotags(env, r.mod, r.base)
    for c in all_comps(r.base):
        out |= outer_tags(env, r.mod, c.t, auto.get(c.name), _seen)
    return out


def tag_key(tag):
    return (CLASS_ORDER[tag[0]], tag[1])


def min_tag(env, mod, t, outer=None):
    return min(outer_tags(env, mod, t, outer), key=tag_key)


def check_distinct(env, mod, t):
    """Is constructed type t (written in mod) legal w.r.t. distinct tags?"""
    auto = component_autotags(env, mod, t)
    if t.kind in ('SET', 'CHOICE'):
        seen = set()
        for c in all_comps(t):
            tg = outer_tags(env, mod, c.t, auto.get(c.name))
            if tg & seen:
                return False
            seen |= tg
        return True
    if t.kind == 'SEQUENCE':
        comps = all_comps(t)
        adds = set(id(c) for c in flat_additions(t))
        run = set()
        for c in comps:
            tg = outer_tags(env, mod, c.t, auto.get(c.name))
            if tg & run:
                return False
            if c.optional or c.has_default or id(c) in adds:
                run |= tg
            else:
                run = set()
        # extensible: everything from the insertion point on must differ from
        # additions (they behave as optional) - covered by treating additions
        # as optional above, plus: the component following the additions.
        return True
    return True
