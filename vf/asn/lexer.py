"""ASN.1 lexical scanner (X.680 clause 12) used to re-lay-out specification text.

Tokens are (kind, text, start, end).  A few items that X.680 treats as separate
lexical items are kept glued because asn1tools lexes them as one and C14 does not
demand otherwise (DESIGN C14): a '-' immediately followed by a digit, '&' + name,
'Module.Type' and '@' + component ids.
"""

import re

TOKEN_RE = re.compile(r'''
    (?P<ws>[ \t\r\n]+)
  | (?P<block>/\*)
  | (?P<line>--)
  | (?P<cstring>"(?:[^"]|"")*")
  | (?P<bhstring>'[0-9A-Fa-f \t\r\n]*'[BH])
  | (?P<assign>::=)
  | (?P<ellipsis>\.\.\.)
  | (?P<range>\.\.)
  | (?P<lvb>\[\[)
  | (?P<rvb>\]\])
  | (?P<real>-?[0-9]+\.[0-9]+(?:[eE][-+]?[0-9]+)?)
  | (?P<realdot>-?[0-9]+\.(?=\.\.[^.]))
  | (?P<number>-?[0-9]+)
  | (?P<at>@\.*[A-Za-z][A-Za-z0-9.-]*)
  | (?P<field>&[A-Za-z][A-Za-z0-9-]*)
  | (?P<word>[A-Za-z](?:-?[A-Za-z0-9])*(?:\.&?[A-Za-z](?:-?[A-Za-z0-9])*)*)
  | (?P<punct>[{}()\[\],;:.|^@!<>&=*/+-])
''', re.X)

MULTIWORD = [
    ('OCTET', 'STRING'), ('BIT', 'STRING'), ('OBJECT', 'IDENTIFIER'), ('WITH', 'COMPONENTS'), ('WITH', 'COMPONENT'),
    ('COMPONENTS', 'OF'), ('EXTENSIBILITY', 'IMPLIED'), ('ANY', 'DEFINED', 'BY'), ('WITH', 'SYNTAX'),
    ('CONSTRAINED', 'BY'), ('CHARACTER', 'STRING'), ('WITH', 'SUCCESSORS'), ('WITH', 'DESCENDANTS'),
]


class LexError(Exception):
    pass


def tokenize(text):
    """-> list of (kind, text, start, end) without white-space and comments."""
    toks = []
    pos = 0
    n = len(text)
    while pos < n:
        m = TOKEN_RE.match(text, pos)
        if not m:
            raise LexError('cannot scan at offset {}: {!r}'.format(pos, text[pos:pos + 20]))
        kind = m.lastgroup
        if kind == 'ws':
            pos = m.end()
        elif kind == 'line':
            # comment: to the next '--' or end of line
            j = pos + 2
            while True:
                nl = text.find('\n', j)
                dd = text.find('--', j)
                if nl == -1 and dd == -1:
                    j = n
                    break
                if dd != -1 and (nl == -1 or dd < nl):
                    j = dd + 2
                    break
                j = nl
                break
            pos = j
        elif kind == 'block':
            depth = 1
            j = pos + 2
            while depth:
                a = text.find('/*', j)
                b = text.find('*/', j)
                if b == -1:
                    raise LexError('unterminated block comment')
                if a != -1 and a < b:
                    depth += 1
                    j = a + 2
                else:
                    depth -= 1
                    j = b + 2
            pos = j
        else:
            toks.append((kind, m.group(), m.start(), m.end()))
            pos = m.end()
    return toks


def token_texts(text):
    return [t[1] for t in tokenize(text)]


def multiword_gaps(toks):
    """Indexes i such that toks[i], toks[i+1] are consecutive words of a multi-word keyword."""
    gaps = set()
    words = [t[1] for t in toks]
    for i in range(len(words)):
        for mw in MULTIWORD:
            if tuple(words[i:i + len(mw)]) == mw:
                for j in range(len(mw) - 1):
                    gaps.add(i + j)
    return gaps


SEP_KINDS = ['space', 'spaces', 'tab', 'lf', 'crlf', 'lflf', 'line_comment_closed', 'line_comment_eol', 'block',
             'block_nested', 'block_nested_multiline', 'block_multiline', 'comment_with_quote', 'block_with_dashes', 'none']


def make_sep(rnd, kind):
    if kind == 'space':
        return ' '
    if kind == 'spaces':
        return ' ' * rnd.randint(2, 5)
    if kind == 'tab':
        return '\t'
    if kind == 'lf':
        return '\n'
    if kind == 'crlf':
        return '\r\n'
    if kind == 'lflf':
        return '\n\n  '
    if kind == 'line_comment_closed':
        return ' -- note {} -- '.format(rnd.randint(0, 9))
    if kind == 'line_comment_eol':
        return ' -- trailing remark\n'
    if kind == 'block':
        return ' /* c */ '
    if kind == 'block_nested':
        return ' /* a /* nested */ b */ '
    if kind == 'block_nested_multiline':
        return rnd.choice([' /* outer\n line /* inner */ tail */ ', ' /* a\n\n /* b\n c */\n d */ ',
                           ' /* X ::= INTEGER\n /* old */ /* older\n */\n Y ::= NULL */ '])
    if kind == 'block_multiline':
        return ' /* first line\n second line\n third */ '
    if kind == 'comment_with_quote':
        return rnd.choice([' -- say "hi --\n', ' /* " */ ', " /* it's */ "])
    if kind == 'block_with_dashes':
        return ' /* -- not a line comment */ '
    return ''


def relayout(text, rnd, kinds, multiword_single_space=False, toks=None):
    """Print the tokens of `text` with random separators.  -> (new text, stats dict)
    or None when the result does not scan back to the same token sequence."""
    if toks is None:
        toks = tokenize(text)
    gaps = multiword_gaps(toks)
    out = []
    used = {}
    mw_used = 0
    for i, t in enumerate(toks):
        out.append(t[1])
        if i == len(toks) - 1:
            break
        if i in gaps and multiword_single_space:
            out.append(' ')
            continue
        k = rnd.choice(kinds)
        if k == 'none':
            a, b = t[1], toks[i + 1][1]
            # only try to abut when one side is bracket-like punctuation
            if not (a in '{}()[],;' or b in '{}()[],;'):
                k = 'space'
        sep = make_sep(rnd, k)
        used[k] = used.get(k, 0) + 1
        if i in gaps and sep != ' ':
            mw_used += 1
        out.append(sep)
    new = ''.join(out) + '\n'
    try:
        if token_texts(new) != [t[1] for t in toks]:
            return None
    except LexError:
        return None
    used['multiword_gaps_varied'] = mw_used
    return new, used


def blank_comments(text):
    """Comment-free twin: every comment character replaced by a blank, newlines kept."""
    out = list(text)
    pos = 0
    n = len(text)
    while pos < n:
        m = TOKEN_RE.match(text, pos)
        if not m:
            break
        kind = m.lastgroup
        if kind in ('line', 'block'):
            # find the end with the same rules as tokenize
            sub = tokenize_comment_end(text, pos, kind)
            for j in range(pos, sub):
                if out[j] != '\n':
                    out[j] = ' '
            pos = sub
        else:
            pos = m.end()
    return ''.join(out)


def tokenize_comment_end(text, pos, kind):
    n = len(text)
    if kind == 'line':
        j = pos + 2
        nl = text.find('\n', j)
        dd = text.find('--', j)
        if nl == -1 and dd == -1:
            return n
        if dd != -1 and (nl == -1 or dd < nl):
            return dd + 2
        return nl
    depth = 1
    j = pos + 2
    while depth:
        a = text.find('/*', j)
        b = text.find('*/', j)
        if b == -1:
            return n
        if a != -1 and a < b:
            depth += 1
            j = a + 2
        else:
            depth -= 1
            j = b + 2
    return j
