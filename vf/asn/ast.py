"""My own AST for ASN.1 specifications (independent of asn1tools' parse output).

The generator (gen.py) builds these objects, text.py prints them as ASN.1, and
the reference models / value generator interpret them.  Nothing in here reads
anything asn1tools computed.
"""

import copy

UNIVERSAL, APPLICATION, CONTEXT, PRIVATE = 'UNIVERSAL', 'APPLICATION', 'CONTEXT', 'PRIVATE'
CLASS_ORDER = {UNIVERSAL: 0, APPLICATION: 1, CONTEXT: 2, PRIVATE: 3}
CLASS_BITS = {UNIVERSAL: 0x00, APPLICATION: 0x40, CONTEXT: 0x80, PRIVATE: 0xc0}

# kind -> (universal tag number, python codec name or None, known-multiplier?)
STRING_KINDS = {
    'UTF8String': (12, 'utf-8', False),
    'NumericString': (18, 'ascii', True),
    'PrintableString': (19, 'ascii', True),
    'TeletexString': (20, 'iso-8859-1', False),
    'IA5String': (22, 'ascii', True),
    'GraphicString': (25, 'latin-1', False),
    'VisibleString': (26, 'ascii', True),
    'GeneralString': (27, 'latin-1', False),
    'UniversalString': (28, 'utf-32-be', True),
    'BMPString': (30, 'utf-16-be', True),
}
TIME_KINDS = {'UTCTime': 23, 'GeneralizedTime': 24}
UNIVERSAL_TAG = {
    'BOOLEAN': 1, 'INTEGER': 2, 'BIT STRING': 3, 'OCTET STRING': 4, 'NULL': 5,
    'OBJECT IDENTIFIER': 6, 'REAL': 9, 'ENUMERATED': 10, 'SEQUENCE': 16,
    'SEQUENCE OF': 16, 'SET': 17, 'SET OF': 17,
}
UNIVERSAL_TAG.update({k: v[0] for k, v in STRING_KINDS.items()})
UNIVERSAL_TAG.update(TIME_KINDS)

NUMERIC_ALPHABET = ' 0123456789'
PRINTABLE_ALPHABET = ('ABCDEFGHIJKLMNOPQRSTUVWXYZabcdefghijklmnopqrstuvwxyz'
                      "0123456789 '()+,-./:=?")


def inherent_alphabet(kind):
    """Characters a value of the (unconstrained) type may contain, as a
    (lo, hi) code point range list, or None when I do not restrict it."""
    if kind == 'NumericString':
        return sorted(NUMERIC_ALPHABET)
    if kind == 'PrintableString':
        return sorted(PRINTABLE_ALPHABET)
    if kind == 'VisibleString':
        return [chr(c) for c in range(32, 127)]
    if kind == 'IA5String':
        return [chr(c) for c in range(128)]
    return None


class Tag(object):
    __slots__ = ('cls', 'num', 'mode')

    def __init__(self, cls, num, mode=None):
        self.cls = cls
        self.num = num
        self.mode = mode       # None | 'IMPLICIT' | 'EXPLICIT'

    def __repr__(self):
        return 'Tag({},{},{})'.format(self.cls, self.num, self.mode)


class Range(object):
    """lo..hi with optional extension marker.  lo/hi None = MIN/MAX (or, for
    SIZE, hi None = MAX).  *_txt give an alternative spelling (named number,
    value reference) used by the printer; the numeric values stay authoritative."""
    __slots__ = ('lo', 'hi', 'ext', 'lo_txt', 'hi_txt', 'more')

    def __init__(self, lo, hi, ext=False, lo_txt=None, hi_txt=None, more=None):
        self.lo = lo
        self.hi = hi
        self.ext = ext
        self.lo_txt = lo_txt
        self.hi_txt = hi_txt
        self.more = more      # (lo, hi) additional range printed after ", ...,"

    def contains(self, v):
        return (self.lo is None or v >= self.lo) and (self.hi is None or v <= self.hi)

    def __repr__(self):
        return 'Range({},{}{})'.format(self.lo, self.hi, ',...' if self.ext else '')


class Alpha(object):
    """Permitted alphabet: list of (lo_char, hi_char) ranges / single chars."""
    __slots__ = ('items', 'ext')

    def __init__(self, items, ext=False):
        self.items = items    # list of (lo, hi) 1-char strings, or str of single chars
        self.ext = ext

    def chars(self):
        out = set()
        for it in self.items:
            if isinstance(it, tuple):
                out.update(chr(c) for c in range(ord(it[0]), ord(it[1]) + 1))
            else:
                out.update(it)
        return sorted(out)


class T(object):
    __slots__ = ('kind', 'tag', 'nn', 'rng', 'enum_root', 'enum_ext', 'named_bits',
                 'size', 'alpha', 'real_fmt', 'comps', 'ext', 'comps2', 'elem', 'ref',
                 'ext_end', 'elem_name')

    def __init__(self, kind, **kw):
        self.kind = kind
        self.tag = None
        self.nn = None           # INTEGER named numbers [(name, int)]
        self.rng = None          # value Range
        self.enum_root = None    # [(name, int-or-None explicit number, value int)]
        self.enum_ext = None     # None or list like enum_root
        self.named_bits = None   # [(name, int)]
        self.size = None         # Range
        self.alpha = None        # Alpha
        self.real_fmt = None     # None | 'binary32' | 'binary64'
        self.comps = None        # root components [Comp]
        self.ext = None          # None or list of Comp / Group
        self.comps2 = None       # second root list
        self.ext_end = False     # print a closing ", ..." after additions (no root2)
        self.elem = None
        self.elem_name = None
        self.ref = None          # type reference name
        for k, v in kw.items():
            setattr(self, k, v)

    def clone(self):
        return copy.deepcopy(self)

    def __repr__(self):
        return 'T({}{})'.format(self.kind, ':' + self.ref if self.ref else '')


class _NoDefault(object):
    """Sentinel that survives copy/deepcopy/pickle as the same object."""

    def __copy__(self):
        return self

    def __deepcopy__(self, memo):
        return self

    def __reduce__(self):
        return (_get_nodefault, ())

    def __repr__(self):
        return 'NODEFAULT'


def _get_nodefault():
    return NODEFAULT


NODEFAULT = _NoDefault()


class Comp(object):
    __slots__ = ('name', 't', 'optional', 'default', 'default_txt', 'cof')

    def __init__(self, name, t, optional=False, default=NODEFAULT, default_txt=None, cof=None):
        self.name = name
        self.t = t
        self.optional = optional
        self.default = default
        self.default_txt = default_txt
        self.cof = cof           # (type reference name, group id): component stems from COMPONENTS OF

    @property
    def has_default(self):
        return self.default is not NODEFAULT

    def __repr__(self):
        return 'Comp({})'.format(self.name)


class Group(object):
    __slots__ = ('comps', 'version')

    def __init__(self, comps, version=None):
        self.comps = comps
        self.version = version


class Assign(object):
    __slots__ = ('kind', 'name', 't', 'value', 'value_txt')

    def __init__(self, kind, name, t, value=None, value_txt=None):
        self.kind = kind       # 'type' | 'value'
        self.name = name
        self.t = t
        self.value = value
        self.value_txt = value_txt


class Module(object):
    __slots__ = ('name', 'tags', 'ext_implied', 'imports', 'assigns')

    def __init__(self, name, tags=None, ext_implied=False):
        self.name = name
        self.tags = tags               # None | 'AUTOMATIC' | 'IMPLICIT' | 'EXPLICIT'
        self.ext_implied = ext_implied
        self.imports = []              # [(list of names, from module name)]
        self.assigns = []

    def types(self):
        return [(a.name, a.t) for a in self.assigns if a.kind == 'type']

    def find(self, name, kind='type'):
        for a in self.assigns:
            if a.kind == kind and a.name == name:
                return a
        return None


class Spec(object):
    __slots__ = ('modules',)

    def __init__(self, modules):
        self.modules = modules

    def module(self, name):
        for m in self.modules:
            if m.name == name:
                return m
        raise KeyError(name)

    def clone(self):
        return copy.deepcopy(self)


def flat_additions(t):
    """Extension additions with groups flattened -> [Comp]."""
    out = []
    for a in (t.ext or []):
        if isinstance(a, Group):
            out.extend(a.comps)
        else:
            out.append(a)
    return out


def all_comps(t):
    """All components in textual order (root1, additions, root2)."""
    return list(t.comps or []) + flat_additions(t) + list(t.comps2 or [])


class Resolved(object):
    """A type use seen through its chain of references."""
    __slots__ = ('base', 'mod', 'tags', 'rng', 'size', 'alpha', 'chain')

    def __init__(self):
        self.base = None    # T of the builtin type at the end of the chain
        self.mod = None     # Module in which `base` is written
        self.tags = []      # [(Tag, Module where written, T under the tag)] outermost first
        self.rng = None
        self.size = None
        self.alpha = None
        self.chain = []     # type reference names followed

    @property
    def kind(self):
        return self.base.kind


class Env(object):
    """Name resolution over a Spec (own module first, then IMPORTS)."""

    def __init__(self, spec):
        self.spec = spec
        self._mods = {m.name: m for m in spec.modules}

    def lookup(self, mod, name, kind='type'):
        a = mod.find(name, kind)
        if a is not None:
            return mod, a
        for names, frm in mod.imports:
            if name in names and frm in self._mods:
                return self.lookup(self._mods[frm], name, kind)
        raise KeyError('{} {} not found from module {}'.format(kind, name, mod.name))

    def res(self, mod, t):
        r = Resolved()
        seen = 0
        while True:
            if t.tag is not None:
                r.tags.append((t.tag, mod, t))
            if r.rng is None and t.rng is not None:
                r.rng = t.rng
            if r.size is None and t.size is not None:
                r.size = t.size
            if r.alpha is None and t.alpha is not None:
                r.alpha = t.alpha
            if t.kind != 'REF':
                r.base = t
                r.mod = mod
                return r
            r.chain.append(t.ref)
            mod, a = self.lookup(mod, t.ref)
            t = a.t
            seen += 1
            if seen > 64:
                raise RuntimeError('reference cycle without constructor')

    def is_extensible(self, r):
        """SEQUENCE/SET/CHOICE extensibility incl. EXTENSIBILITY IMPLIED."""
        b = r.base
        if b.kind in ('SEQUENCE', 'SET', 'CHOICE'):
            return b.ext is not None or r.mod.ext_implied
        return False
