"""Printer: my AST -> ASN.1 text."""

from .ast import (T, Comp, Group, Range, Alpha, Tag, Module, Spec, NODEFAULT,
                  CONTEXT)


def _num(v, txt, none_txt):
    if txt is not None:
        return txt
    if v is None:
        return none_txt
    return str(v)


def range_text(r, inner_only=False):
    if r.lo is not None and r.lo == r.hi and r.lo_txt is None and r.hi_txt is None:
        s = str(r.lo)
    elif r.lo is not None and r.lo == r.hi and r.lo_txt is not None and r.lo_txt == r.hi_txt:
        s = r.lo_txt
    else:
        s = '{}..{}'.format(_num(r.lo, r.lo_txt, 'MIN'), _num(r.hi, r.hi_txt, 'MAX'))
    if r.ext:
        s += ', ...'
        if r.more is not None:
            lo, hi = r.more
            s += ', {}'.format(lo if lo == hi else '{}..{}'.format(lo, hi))
    return s


def cstring(s):
    return '"' + s.replace('"', '""') + '"'


def alpha_text(a):
    parts = []
    for it in a.items:
        if isinstance(it, tuple):
            parts.append('{}..{}'.format(cstring(it[0]), cstring(it[1])))
        else:
            parts.append(cstring(it))
    s = ' | '.join(parts)
    if a.ext:
        s += ', ...'
    return 'FROM ({})'.format(s)


def tag_text(tag):
    if tag is None:
        return ''
    s = '[{}{}]'.format('' if tag.cls == CONTEXT else tag.cls + ' ', tag.num)
    if tag.mode:
        s += ' ' + tag.mode
    return s + ' '


REAL_WC = {
    'binary32': '(WITH COMPONENTS { mantissa (-16777215..16777215), base (2), exponent (-149..104) })',
    'binary64': '(WITH COMPONENTS { mantissa (-9007199254740991..9007199254740991), base (2), exponent (-1074..971) })',
}


def comp_text(c, ind):
    s = '{} {}'.format(c.name, type_text(c.t, ind))
    if c.optional:
        s += ' OPTIONAL'
    elif c.default is not NODEFAULT:
        s += ' DEFAULT ' + c.default_txt
    return s


def _root_items(comps, ind):
    """Component list with COMPONENTS OF groups printed once."""
    items = []
    last = None
    for c in comps:
        if c.cof is not None:
            if c.cof != last:
                items.append('COMPONENTS OF ' + c.cof[0])
            last = c.cof
            continue
        last = None
        items.append(comp_text(c, ind + 1))
    return items


def _members_text(t, ind):
    pad = '  ' * (ind + 1)
    items = _root_items(t.comps or [], ind)
    if t.ext is not None:
        items.append('...')
        for a in t.ext:
            if isinstance(a, Group):
                inner = (',\n' + pad + '   ').join(comp_text(c, ind + 2) for c in a.comps)
                v = '{}: '.format(a.version) if a.version is not None else ''
                items.append('[[ {}{} ]]'.format(v, inner))
            else:
                items.append(comp_text(a, ind + 1))
        if t.comps2:
            items.append('...')
            items.extend(_root_items(t.comps2, ind))
        elif t.ext_end:
            items.append('...')
    if not items:
        return '{ }'
    return '{\n' + pad + (',\n' + pad).join(items) + '\n' + '  ' * ind + '}'


def enum_item(it):
    name, explicit, _ = it
    return name if explicit is None else '{}({})'.format(name, explicit)


def type_text(t, ind=0):
    s = tag_text(t.tag)
    k = t.kind
    if k == 'REF':
        s += t.ref
    elif k == 'INTEGER':
        s += 'INTEGER'
        if t.nn:
            s += ' { ' + ', '.join('{}({})'.format(n, v) for n, v in t.nn) + ' }'
    elif k == 'ENUMERATED':
        items = [enum_item(i) for i in t.enum_root]
        if t.enum_ext is not None:
            items.append('...')
            items.extend(enum_item(i) for i in t.enum_ext)
        s += 'ENUMERATED { ' + ', '.join(items) + ' }'
    elif k == 'BIT STRING':
        s += 'BIT STRING'
        if t.named_bits:
            s += ' { ' + ', '.join('{}({})'.format(n, v) for n, v in t.named_bits) + ' }'
    elif k in ('SEQUENCE', 'SET', 'CHOICE'):
        s += k + ' ' + _members_text(t, ind)
    elif k in ('SEQUENCE OF', 'SET OF'):
        s += k.split()[0]
        if t.size is not None:
            s += ' (SIZE ({}))'.format(range_text(t.size))
        s += ' OF '
        if t.elem_name:
            s += t.elem_name + ' '
        s += type_text(t.elem, ind)
        return s
    elif k == 'REAL':
        s += 'REAL'
        if t.real_fmt:
            s += ' ' + REAL_WC[t.real_fmt]
    else:
        s += k
    if t.rng is not None:
        s += ' ({})'.format(range_text(t.rng))
    if t.size is not None and k not in ('SEQUENCE OF', 'SET OF'):
        s += ' (SIZE ({}))'.format(range_text(t.size))
    if t.alpha is not None:
        s += ' ({})'.format(alpha_text(t.alpha))
    return s


def module_text(m):
    hdr = m.name + ' DEFINITIONS'
    if m.tags:
        hdr += ' ' + m.tags + ' TAGS'
    if m.ext_implied:
        hdr += ' EXTENSIBILITY IMPLIED'
    lines = [hdr + ' ::= BEGIN', '']
    if m.imports:
        lines.append('IMPORTS')
        for names, frm in m.imports:
            lines.append('  ' + ', '.join(names) + ' FROM ' + frm)
        lines.append(';')
        lines.append('')
    for a in m.assigns:
        if a.kind == 'type':
            lines.append('{} ::= {}'.format(a.name, type_text(a.t)))
        else:
            lines.append('{} {} ::= {}'.format(a.name, type_text(a.t), a.value_txt))
        lines.append('')
    lines.append('END')
    return '\n'.join(lines) + '\n'


def spec_text(spec, order=None):
    mods = spec.modules if order is None else [spec.modules[i] for i in order]
    return '\n'.join(module_text(m) for m in mods)


# --------------------------------------------------------------------------
# value notation (used for DEFAULT values and value assignments)

def bstring(data, nbits):
    bits = ''.join('{:08b}'.format(b) for b in data)[:nbits]
    return "'" + bits + "'B"


def hstring(data):
    return "'" + bytes(data).hex().upper() + "'H"
