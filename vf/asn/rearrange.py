"""Meaning-preserving reorganisations of a specification (on my AST) for C19."""

import copy

from .ast import T, Comp, Group, Module, Assign, Env, all_comps, Spec


def clone(spec):
    return copy.deepcopy(spec)


def permute_assignments(spec, rnd):
    s = clone(spec)
    for m in s.modules:
        rnd.shuffle(m.assigns)
    return s, 'permute_assignments'


def permute_modules(spec, rnd):
    s = clone(spec)
    if len(s.modules) < 2:
        return None
    order = list(range(len(s.modules)))
    while order == sorted(order):
        rnd.shuffle(order)
    s.modules = [s.modules[i] for i in order]
    return s, 'permute_modules'


def _subtypes(t, out):
    """All T nodes below t (including t) with their parents: (node, setter)."""
    out.append(t)
    if t.kind in ('SEQUENCE', 'SET', 'CHOICE'):
        for c in all_comps(t):
            _subtypes(c.t, out)
    elif t.kind in ('SEQUENCE OF', 'SET OF'):
        _subtypes(t.elem, out)


def _refs_in(t):
    out = []
    nodes = []
    _subtypes(t, nodes)
    for n in nodes:
        if n.kind == 'REF':
            out.append(n.ref)
        if n.kind in ('SEQUENCE', 'SET'):
            for c in all_comps(n):
                if c.cof is not None:
                    out.append(c.cof[0])
    return out


def _value_refs_in(t):
    out = set()
    nodes = []
    _subtypes(t, nodes)
    for n in nodes:
        for r in (n.rng, n.size):
            if r is not None:
                for x in (r.lo_txt, r.hi_txt):
                    if x:
                        out.add(x)
    return out


def _reaches_self(env, mod, name):
    seen = set()
    stack = [(mod, name)]
    first = True
    while stack:
        m, n = stack.pop()
        if (m.name, n) in seen:
            continue
        if not first and (m.name, n) == (mod.name, name):
            return True
        if not first:
            seen.add((m.name, n))
        first = False
        try:
            m2, a = env.lookup(m, n)
        except KeyError:
            continue
        for r in _refs_in(a.t):
            try:
                m3, a3 = env.lookup(m2, r)
            except KeyError:
                continue
            if (m3.name, a3.name) == (mod.name, name):
                return True
            stack.append((m3, a3.name))
    return False


def _slots(t):
    """(container, kind, key) triples through which a sub-type of t can be replaced."""
    out = []
    if t.kind in ('SEQUENCE', 'SET', 'CHOICE'):
        for c in all_comps(t):
            out.append((c, 'comp'))
            out.extend(_slots(c.t))
    elif t.kind in ('SEQUENCE OF', 'SET OF'):
        out.append((t, 'elem'))
        out.extend(_slots(t.elem))
    return out


def _get(slot):
    obj, kind = slot
    return obj.t if kind == 'comp' else obj.elem


def _set(slot, new):
    obj, kind = slot
    if kind == 'comp':
        obj.t = new
    else:
        obj.elem = new


def inline_refs(spec, rnd, p=0.5, skip_ext_implied=False):
    """Replace type references by a copy of their definition (same module only)."""
    s = clone(spec)
    env = Env(s)
    n = 0
    with_default = 0
    for m in s.modules:
        if skip_ext_implied and m.ext_implied:
            continue
        for a in m.assigns:
            if a.kind != 'type':
                continue
            for slot in _slots(a.t):
                t = _get(slot)
                if t.kind != 'REF' or rnd.random() > p:
                    continue
                d = m.find(t.ref)
                if d is None:
                    continue          # imported: not inlined
                if _reaches_self(env, m, t.ref):
                    continue
                dt = d.t
                if t.tag is not None and dt.tag is not None:
                    continue
                if (t.rng is not None and dt.rng is not None) or (t.size is not None and dt.size is not None) \
                        or (t.alpha is not None and dt.alpha is not None):
                    continue
                if slot[1] == 'comp' and slot[0].cof is not None:
                    continue
                sub = []
                _subtypes(dt, sub)
                if any(n.kind in ('SEQUENCE', 'SET') and any(c.cof is not None for c in all_comps(n)) for n in sub):
                    continue      # COMPONENTS OF is only written at the top level of a type assignment
                if slot[1] == 'comp' and dt.tag is not None and m.tags == 'AUTOMATIC':
                    # a textual tag appearing on a component switches automatic tagging off
                    # for the whole parent: inlining would change the meaning
                    continue
                new = copy.deepcopy(dt)
                if t.tag is not None:
                    new.tag = t.tag
                if t.rng is not None:
                    new.rng = t.rng
                if t.size is not None:
                    new.size = t.size
                if t.alpha is not None:
                    new.alpha = t.alpha
                _set(slot, new)
                n += 1
                if slot[1] == 'comp' and (slot[0].optional or slot[0].has_default):
                    with_default += 1
    if n == 0:
        return None
    return s, 'inline_refs', {'inlined': n, 'inlined_optional_or_default': with_default}


def extract_types(spec, rnd, p=0.35, skip_ext_implied=False):
    """Turn inline sub-types into new named types of the same module."""
    s = clone(spec)
    n = 0
    for m in s.modules:
        if skip_ext_implied and m.ext_implied:
            continue
        new_assigns = []
        names = set(a.name for a in m.assigns)
        for a in m.assigns:
            if a.kind != 'type':
                continue
            for slot in _slots(a.t):
                t = _get(slot)
                if t.kind == 'REF' or rnd.random() > p:
                    continue
                if slot[1] == 'comp' and slot[0].cof is not None:
                    continue
                nm = 'Ext{}{}'.format(m.name[-1], len(names))
                while nm in names:
                    nm += 'x'
                names.add(nm)
                ref = T('REF', ref=nm)
                ref.tag = t.tag
                body = t
                body.tag = None
                _set(slot, ref)
                new_assigns.append(Assign('type', nm, body))
                n += 1
        pos = rnd.randint(0, len(m.assigns))
        m.assigns[pos:pos] = new_assigns
    if n == 0:
        return None
    return s, 'extract_types', {'extracted': n}


def split_module(spec, rnd, avoid_cross_module_cycles=False):
    """Move some type definitions of one module into a new module with the same
    tag default / extensibility setting and import them back."""
    s = clone(spec)
    def has_cof(m):
        for _, t in m.types():
            nodes = []
            _subtypes(t, nodes)
            for n in nodes:
                if n.kind in ('SEQUENCE', 'SET') and any(c.cof is not None for c in all_comps(n)):
                    return True
        return False
    cands = [m for m in s.modules if len(m.types()) >= 2 and not has_cof(m)]
    if not cands:
        return None
    m = rnd.choice(cands)
    tnames = [n for n, _ in m.types()]
    k = rnd.randint(1, len(tnames) - 1)
    moved = set(rnd.sample(tnames, k))
    if avoid_cross_module_cycles:
        env0 = Env(s)
        # keep every reference cycle inside one module
        def reach(a, seen):
            if a in seen:
                return
            seen.add(a)
            d = m.find(a)
            if d is not None:
                for r in _refs_in(d.t):
                    reach(r, seen)
        for a in tnames:
            for b in tnames:
                if (a in moved) != (b in moved):
                    sa, sb = set(), set()
                    reach(a, sa)
                    reach(b, sb)
                    if b in sa and a in sb:
                        return None
    new = Module(m.name + 'X', tags=m.tags, ext_implied=m.ext_implied)
    stay = []
    for a in m.assigns:
        if a.kind == 'type' and a.name in moved:
            new.assigns.append(a)
        else:
            stay.append(a)
    m.assigns = stay
    # what the moved types need from the old module (types and values) and from its imports
    need_types = set()
    need_vals = set()
    for a in new.assigns:
        for r in _refs_in(a.t):
            if r not in moved:
                need_types.add(r)
        need_vals |= _value_refs_in(a.t)
    local_types = set(n for n, _ in m.types())
    local_vals = set(a.name for a in m.assigns if a.kind == 'value')
    named_numbers = set()
    for a in new.assigns:
        nodes = []
        _subtypes(a.t, nodes)
        for nnode in nodes:
            for nm, _ in (nnode.nn or []):
                named_numbers.add(nm)
    imp_from_old = sorted((need_types & local_types) | ((need_vals - named_numbers) & local_vals))
    if imp_from_old:
        new.imports.append((imp_from_old, m.name))
    for names, frm in m.imports:
        keep = sorted(n for n in names if n in need_types or n in need_vals)
        if keep:
            new.imports.append((keep, frm))
    # the old module imports what it still references
    used_here = set()
    for a in m.assigns:
        if a.kind == 'type':
            used_here |= set(_refs_in(a.t))
    back = sorted(used_here & moved)
    if back:
        m.imports.append((back, new.name))
    # other modules importing moved names from m
    for o in s.modules:
        if o is m:
            continue
        newimps = []
        add = []
        for names, frm in o.imports:
            if frm == m.name:
                mv = sorted(n for n in names if n in moved)
                st = sorted(n for n in names if n not in moved)
                if st:
                    newimps.append((st, frm))
                if mv:
                    add.append((mv, new.name))
            else:
                newimps.append((names, frm))
        o.imports = newimps + add
    s.modules.insert(rnd.randint(0, len(s.modules)), new)
    return s, 'split_module', {'moved': len(moved)}


ARRANGERS = [permute_assignments, permute_modules, inline_refs, extract_types, split_module]
