"""Known findings: loader for /verif/KNOWN_FINDINGS, probes, carve-out names.

Line formats (the file is never written at run time):

  known: property=C06 key=<key> witness=findings/<key>.json <what fails>
  fixed: property=C08 <commit> <what failed>

A `known` entry is probed at the start of every run of its property: the
witness in findings/<key>.json is executed against the current tree.  If it
still violates, `KNOWN-FINDING: property=<id> <what fails>` is printed and the
carve-out named by the key stays active (the bulk generator skips exactly that
input class).  If it no longer violates nothing is printed and the carve-out is
switched off, so the bulk workload covers the region again.
"""

import os
import json
import subprocess
import sys

from . import core

PATH = os.path.join(core.VERIF, 'KNOWN_FINDINGS')


def load():
    known, fixed = [], []
    if not os.path.exists(PATH):
        return known, fixed
    for ln in open(PATH):
        ln = ln.strip()
        if not ln or ln.startswith('#'):
            continue
        if ln.startswith('known:'):
            parts = ln[len('known:'):].split()
            d = {'text': []}
            for p in parts:
                if '=' in p and p.split('=')[0] in ('property', 'key', 'witness') and not d['text']:
                    k, v = p.split('=', 1)
                    d[k] = v
                else:
                    d['text'].append(p)
            d['text'] = ' '.join(d['text'])
            known.append(d)
        elif ln.startswith('fixed:'):
            fixed.append(ln)
    return known, fixed


def _compile(w):
    import asn1tools
    return asn1tools.compile_string(w['spec'], w['codec'], numeric_enums=w.get('numeric_enums', False))


def run_witness(w):
    """Execute a witness; return True when the violation still reproduces."""
    core.setup_path()
    import asn1tools
    kind = w['kind']
    if kind == 'encode_expect':
        # reproduces when the real encoder does NOT give the expected (correct) bytes
        try:
            s = _compile(w)
            got = s.encode(w['type'], core.unjson(w['value']), **w.get('kwargs', {}))
        except Exception as e:
            return True
        return bytes(got).hex() != w['expected_hex']
    if kind == 'roundtrip':
        try:
            s = _compile(w)
            v = core.unjson(w['value'])
            got = s.decode(w['type'], s.encode(w['type'], v))
        except Exception:
            return True
        exp = core.unjson(w['expected']) if 'expected' in w else v
        return got != exp
    if kind == 'decode_expect':
        try:
            s = _compile(w)
            got = s.decode(w['type'], bytes.fromhex(w['data_hex']))
        except Exception as e:
            if 'expected_error' in w:
                return not isinstance(e, getattr(asn1tools, w['expected_error']))
            return True
        if 'expected_error' in w:
            return True
        return got != core.unjson(w['expected'])
    if kind == 'decode_steps':
        # reproduces when decoding does not finish within the C08 step budget
        from . import monitor
        from .checks import c08
        s = _compile(w)
        data = bytes.fromhex(w['data_hex'])
        stepper = monitor.StepBudget()
        try:
            outcome, _, steps = stepper.call(lambda: s.decode(w['type'], data),
                                             c08.budget(len(data), w.get('zero_width', False)))
        finally:
            stepper.close()
        return outcome == 'budget'
    if kind == 'encode_must_reject':
        # reproduces when an out-of-constraint value is NOT rejected with ConstraintsError
        s = _compile(w)
        try:
            s.encode(w['type'], core.unjson(w['value']), check_constraints=True)
        except asn1tools.ConstraintsError:
            return False
        except Exception:
            return True
        return True
    if kind == 'text_expect':
        try:
            s = _compile(w)
            got = s.encode(w['type'], core.unjson(w['value']), **w.get('kwargs', {}))
        except Exception:
            return True
        return got.decode('utf-8', 'replace') != w['expected_text']
    if kind == 'custom':
        # run a named probe from vf.probes in a child process with a timeout
        cmd = [sys.executable, '-m', 'vf.probes', w['name']]
        env = dict(os.environ)
        env['PYTHONPATH'] = core.VERIF + os.pathsep + env.get('PYTHONPATH', '')
        try:
            p = subprocess.run(cmd, cwd=core.VERIF, env=env, timeout=w.get('timeout', 60),
                               stdout=subprocess.PIPE, stderr=subprocess.PIPE)
        except subprocess.TimeoutExpired:
            return True
        return p.returncode != 0
    raise ValueError('unknown witness kind ' + kind)


def probe_all(prop_id):
    """-> (set of active keys, lines to print)."""
    known, _ = load()
    active, lines = set(), []
    if os.environ.get('VF_CARVE_ALL'):      # development aid only (never set by MANIFEST commands)
        from . import carve
        active = set(k for k, (props, _) in carve.REGISTRY.items() if prop_id in props)
    for d in known:
        if d.get('property') != prop_id:
            continue
        wpath = os.path.join(core.VERIF, d['witness'])
        with open(wpath) as f:
            w = json.load(f)
        try:
            rep = run_witness(w)
        except Exception as e:
            rep = True
        if rep:
            active.add(d['key'])
            lines.append('KNOWN-FINDING: property={} {}'.format(prop_id, d['text']))
    return active, lines
