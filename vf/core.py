"""Runner, statistics, evidence and CLI shared by all checks.

Each check module (vf/checks/cNN.py) provides:
  ID, LEVEL, RULE, shards(tier) -> int, run_shard(ctx), floors (dict counter->min),
  replay(case) -> list of violation dicts (optional), finish(agg) (optional).
Workers are separate processes (subprocess, never multiprocessing.Pool).
"""

import os
import sys
import json
import time
import random
import hashlib
import subprocess
import importlib
import traceback
import resource
from concurrent.futures import ThreadPoolExecutor

VERIF = os.path.dirname(os.path.dirname(os.path.abspath(__file__)))
REPO = os.environ.get('ASN1TOOLS_SRC', '/repo')
PY = sys.executable


def setup_path():
    """Make `import asn1tools` resolve to the tree under test (ASN1TOOLS_SRC)."""
    if REPO not in sys.path:
        sys.path.insert(0, REPO)
    deps = os.path.join(VERIF, '.deps')
    if os.path.isdir(deps) and deps not in sys.path:
        sys.path.append(deps)


def h64(obj):
    return int(hashlib.sha1(repr(obj).encode('utf-8', 'replace')).hexdigest()[:15], 16)


class Stats(object):

    def __init__(self):
        self.c = {}
        self.distinct = set()
        self.samples = []
        self.maxes = {}
        self.sets = {}

    def inc(self, key, n=1):
        self.c[key] = self.c.get(key, 0) + n

    def mark(self, key):
        self.distinct.add(h64(key))

    def sample(self, obj, cap=4):
        if len(self.samples) < cap:
            self.samples.append(obj)

    def max(self, key, v):
        if v > self.maxes.get(key, float('-inf')):
            self.maxes[key] = v

    def add(self, name, item):
        self.sets.setdefault(name, set()).add(item)

    def dump(self):
        return {'c': self.c, 'distinct': sorted(self.distinct), 'samples': self.samples,
                'maxes': self.maxes, 'sets': {k: sorted(v, key=repr) for k, v in self.sets.items()}}


class Ctx(object):

    def __init__(self, check_id, tier, seed, shard, nshards, active):
        self.id = check_id
        self.tier = tier
        self.seed = seed
        self.shard = shard
        self.nshards = nshards
        self.active = set(active)        # known-finding keys that still reproduce (carve-outs on)
        self.rnd = random.Random('{}/{}/{}'.format(seed, check_id, shard))
        self.stats = Stats()
        self.violations = []
        self.inconclusive = []
        self.t0 = time.time()
        self.deadline = None

    def violation(self, kind, case, detail):
        """case must be JSON-serialisable and sufficient for replay()."""
        if len(self.violations) < int(os.environ.get('VF_MAXVIOL', '20')):
            self.violations.append({'kind': kind, 'case': case, 'detail': detail})
        self.stats.inc('violations')
        self.stats.inc('violation_kind:' + kind)

    def time_left(self):
        return self.deadline is None or time.time() < self.deadline


class CaseTimeout(BaseException):
    pass


def guarded(fn, seconds=20):
    """Run fn() under a wall-clock alarm (only a trigger: the verdict on a
    suspected hang is taken by decide_hang on logical steps)."""
    import signal

    def onalarm(signum, frame):
        raise CaseTimeout()
    old = signal.signal(signal.SIGALRM, onalarm)
    signal.setitimer(signal.ITIMER_REAL, seconds)
    try:
        return fn()
    finally:
        signal.setitimer(signal.ITIMER_REAL, 0)
        signal.signal(signal.SIGALRM, old)


_STEPPER = [None]


def decide_hang(fn, limit=3000000):
    """Re-run fn under a logical step budget: 'budget' = did not finish within
    `limit` interpreter line events inside asn1tools (a violation by logical
    measure), otherwise the wall-clock trigger was noise."""
    from . import monitor
    if _STEPPER[0] is None:
        _STEPPER[0] = monitor.StepBudget()
    outcome, _, steps = _STEPPER[0].call(fn, limit)
    return outcome, steps


def jsonable(o):
    if isinstance(o, (bytes, bytearray)):
        return {'__bytes__': bytes(o).hex()}
    if isinstance(o, tuple):
        return {'__tuple__': [jsonable(x) for x in o]}
    if isinstance(o, list):
        return [jsonable(x) for x in o]
    if isinstance(o, dict):
        if all(isinstance(k, str) for k in o):
            return {k: jsonable(v) for k, v in o.items()}
        return {'__dict__': [[jsonable(k), jsonable(v)] for k, v in o.items()]}
    if isinstance(o, float):
        if o != o:
            return {'__float__': 'nan'}
        if o in (float('inf'), float('-inf')):
            return {'__float__': 'inf' if o > 0 else '-inf'}
        return o
    if isinstance(o, (str, int, bool)) or o is None:
        return o
    import datetime
    if isinstance(o, datetime.datetime):
        return {'__datetime__': [o.year, o.month, o.day, o.hour, o.minute, o.second, o.microsecond]}
    return {'__repr__': repr(o)}


def unjson(o):
    import datetime
    if isinstance(o, list):
        return [unjson(x) for x in o]
    if isinstance(o, dict):
        if '__bytes__' in o:
            return bytes.fromhex(o['__bytes__'])
        if '__tuple__' in o:
            return tuple(unjson(x) for x in o['__tuple__'])
        if '__dict__' in o:
            return {unjson(k): unjson(v) for k, v in o['__dict__']}
        if '__float__' in o:
            return float(o['__float__'])
        if '__datetime__' in o:
            return datetime.datetime(*o['__datetime__'])
        if '__repr__' in o:
            return o['__repr__']
        return {k: unjson(v) for k, v in o.items()}
    return o


# ---------------------------------------------------------------------------
# worker entry

def worker_main(argv):
    check_id, tier, seed, shard, nshards, active, outpath = argv[:7]
    budget_s = float(argv[7]) if len(argv) > 7 else None
    setup_path()
    mod = importlib.import_module('vf.checks.' + check_id.lower())
    mem = getattr(mod, 'RLIMIT_AS', 4 << 30)
    try:
        resource.setrlimit(resource.RLIMIT_AS, (mem, mem))
    except (ValueError, OSError):
        pass
    ctx = Ctx(check_id, tier, int(seed), int(shard), int(nshards),
              [a for a in active.split(',') if a])
    if budget_s:
        ctx.deadline = time.time() + budget_s
    err = None
    try:
        mod.run_shard(ctx)
    except BaseException:
        err = traceback.format_exc()
    out = {'stats': ctx.stats.dump(), 'violations': ctx.violations,
           'inconclusive': ctx.inconclusive, 'error': err, 'wall': time.time() - ctx.t0}
    with open(outpath, 'w') as f:
        json.dump(out, f)
    return 0


def run_workers(check_id, tier, seed, nshards, active, timeout_s, budget_s=None, jobs=None):
    import tempfile
    tmp = tempfile.mkdtemp(prefix='vf-{}-'.format(check_id))
    jobs = jobs or min(16, os.cpu_count() or 4)
    env = dict(os.environ)
    env['PYTHONHASHSEED'] = '0'
    env['PYTHONPATH'] = VERIF + os.pathsep + env.get('PYTHONPATH', '')
    env.setdefault('ASN1TOOLS_SRC', REPO)

    def one(shard):
        outpath = os.path.join(tmp, 'shard{}.json'.format(shard))
        cmd = [PY, '-m', 'vf.core', '--worker', check_id, tier, str(seed), str(shard), str(nshards),
               ','.join(sorted(active)), outpath]
        if budget_s:
            cmd.append(str(budget_s))
        try:
            p = subprocess.run(cmd, cwd=VERIF, env=env, timeout=timeout_s,
                               stdout=subprocess.PIPE, stderr=subprocess.PIPE)
        except subprocess.TimeoutExpired:
            return {'shard': shard, 'timeout': True}
        if not os.path.exists(outpath):
            return {'shard': shard, 'died': p.returncode,
                    'stderr': p.stderr.decode('utf-8', 'replace')[-2000:]}
        with open(outpath) as f:
            res = json.load(f)
        res['shard'] = shard
        return res

    try:
        with ThreadPoolExecutor(max_workers=jobs) as ex:
            results = list(ex.map(one, range(nshards)))
    finally:
        import shutil
        shutil.rmtree(tmp, ignore_errors=True)
    return results


def merge(results):
    agg = {'c': {}, 'distinct': set(), 'samples': [], 'maxes': {}, 'sets': {},
           'violations': [], 'problems': [], 'inconclusive': []}
    for r in results:
        if r.get('timeout'):
            agg['problems'].append('shard {} hit the wall-clock watchdog'.format(r['shard']))
            continue
        if 'died' in r:
            agg['problems'].append('shard {} died rc={} {}'.format(r['shard'], r['died'], r.get('stderr', '')[-300:]))
            continue
        if r.get('error'):
            agg['problems'].append('shard {} harness error: {}'.format(r['shard'], r['error'][-1500:]))
        agg.setdefault('walls', []).append((round(r.get('wall', 0), 1), r['shard']))
        s = r['stats']
        for k, v in s['c'].items():
            agg['c'][k] = agg['c'].get(k, 0) + v
        agg['distinct'].update(s['distinct'])
        for x in s['samples']:
            if len(agg['samples']) < 6:
                agg['samples'].append(x)
        for k, v in s['maxes'].items():
            if v > agg['maxes'].get(k, float('-inf')):
                agg['maxes'][k] = v
        for k, v in s['sets'].items():
            agg['sets'].setdefault(k, set()).update(tuple(x) if isinstance(x, list) else x for x in v)
        agg['violations'].extend(r['violations'])
        agg['inconclusive'].extend(r.get('inconclusive', []))
    return agg


def write_replay(check_id, v):
    os.makedirs(os.path.join(VERIF, 'replays'), exist_ok=True)
    blob = json.dumps(v, sort_keys=True)
    name = '{}-{}.json'.format(check_id, hashlib.sha1(blob.encode()).hexdigest()[:12])
    path = os.path.join(VERIF, 'replays', name)
    with open(path, 'w') as f:
        f.write(blob)
    return os.path.join('replays', name)


def write_evidence(check_id, tier, seed, level, coverage, wall, violations, assumptions):
    os.makedirs(os.path.join(VERIF, 'evidence'), exist_ok=True)
    ev = {'property_id': check_id, 'tier': tier, 'seed': seed, 'level': level,
          'coverage': coverage, 'assumptions': assumptions, 'wall_s': round(wall, 2),
          'violations': violations}
    path = os.path.join(VERIF, 'evidence', check_id + '.json')
    tmp = path + '.tmp'
    with open(tmp, 'w') as f:
        json.dump(ev, f, indent=1, sort_keys=True, default=repr)
    os.replace(tmp, path)
    return path


def main(argv=None):
    argv = list(sys.argv[1:] if argv is None else argv)
    if argv and argv[0] == '--worker':
        return worker_main(argv[1:])
    import argparse
    ap = argparse.ArgumentParser()
    ap.add_argument('check')
    ap.add_argument('--tier', default=os.environ.get('VERIF_TIER', 'quick'))
    ap.add_argument('--replay')
    ap.add_argument('--seed', type=int, default=None)
    ap.add_argument('--jobs', type=int, default=None)
    ap.add_argument('--shards', type=int, default=None)
    a = ap.parse_args(argv)
    tier = a.tier if a.tier in ('quick', 'thorough') else 'quick'
    try:
        seed = a.seed if a.seed is not None else int(os.environ.get('VERIF_SEED', '0') or 0)
    except ValueError:
        seed = 0
    os.environ['PYTHONHASHSEED'] = '0'
    setup_path()
    check_id = a.check.upper()
    mod = importlib.import_module('vf.checks.' + check_id.lower())
    from . import findings
    t0 = time.time()

    if a.replay:
        with open(a.replay) as f:
            v = json.load(f)
        res = mod.replay(v['case'])
        if res:
            print('VIOLATION property={} replay={}'.format(check_id, a.replay))
            print(json.dumps(res, indent=1, default=repr)[:4000])
            return 1
        print('replay: no violation on the current tree')
        return 0

    # 1. probes of the known findings of this property
    active, lines = findings.probe_all(check_id)
    for ln in lines:
        print(ln)
    sys.stdout.flush()

    # 2. bulk workload
    nshards = a.shards or mod.shards(tier)
    timeout_s = getattr(mod, 'TIMEOUT', {'quick': 900, 'thorough': 7200})[tier]
    budget_s = getattr(mod, 'BUDGET', {'quick': None, 'thorough': None})[tier]
    results = run_workers(check_id, tier, seed, nshards, active, timeout_s, budget_s, a.jobs)
    agg = merge(results)
    if hasattr(mod, 'finish'):
        mod.finish(agg, tier, seed)
    wall = time.time() - t0

    c = agg['c']
    coverage = {
        'evaluations': int(c.get('evaluations', 0)),
        'distinct_nontrivial': len(agg['distinct']),
        'rule': mod.RULE,
        'samples': agg['samples'],
        'counters': {k: c[k] for k in sorted(c)},
        'maxes': agg['maxes'],
        'sets': {k: sorted(v, key=repr)[:200] for k, v in agg['sets'].items()},
        'shards': nshards,
        'known_findings_reproduced': sorted(active),
        'harness_problems': agg['problems'],
        'slowest_shards_s': sorted(agg.get('walls', []), reverse=True)[:3],
    }
    if hasattr(mod, 'coverage_extra'):
        coverage.update(mod.coverage_extra(agg))
    nviol = len(agg['violations'])
    write_evidence(check_id, tier, seed, mod.LEVEL, coverage, wall, int(c.get('violations', 0)),
                   getattr(mod, 'ASSUMPTIONS', []))

    print('{} tier={} seed={} evaluations={} distinct_nontrivial={} wall={:.1f}s'.format(
        check_id, tier, seed, coverage['evaluations'], coverage['distinct_nontrivial'], wall))
    for k in getattr(mod, 'REPORT', []):
        print('  {} = {}'.format(k, c.get(k, 0)))
    if nviol:
        seen = set()
        for v in agg['violations']:
            key = (v['kind'], json.dumps(v['detail'], sort_keys=True, default=repr)[:200])
            if key in seen:
                continue
            seen.add(key)
            path = write_replay(check_id, v)
            print('VIOLATION property={} replay={}'.format(check_id, path))
            print('  kind={} detail={}'.format(v['kind'], json.dumps(v['detail'], default=repr)[:600]))
            if len(seen) >= 12:
                break
        return 1
    reasons = list(agg['problems']) + list(agg['inconclusive'])
    for k, floor in getattr(mod, 'FLOORS', {}).get(tier, {}).items():
        if c.get(k, 0) < floor:
            reasons.append('counter {}={} below floor {}'.format(k, c.get(k, 0), floor))
    if reasons:
        for r in reasons[:10]:
            print('INCONCLUSIVE property={} reason={}'.format(check_id, r))
        return 2
    print('OK property={} held on everything explored'.format(check_id))
    return 0


if __name__ == '__main__':
    sys.exit(main())
