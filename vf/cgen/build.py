"""Generate, compile (gcc -std=c99 syntax gate; clang ASan+UBSan executable) and run the
driver for one generated C module.  See checks/cshared.py for the oracle."""

import os
import re
import subprocess

from . import cmap

DRIVER_HEAD = r'''
#include <stdio.h>
#include <stdlib.h>
#include <string.h>
#include <stdint.h>
#include <stdbool.h>
#include <math.h>
#include "gen.h"

static long n_fail, n_checks, n_encodes, n_small, n_decodes, n_corpus, n_accepted, n_valid;
static char cur[96] = "startup";

void __sanitizer_set_death_callback(void (*callback)(void));
static void on_death(void) { fprintf(stderr, "\nDEATH-AT %s\n", cur); fflush(stderr); }

#define CHECK(cond, what) do { n_checks++; if (!(cond)) { n_fail++; printf("FAIL %s %s\n", cur, what); } } while (0)

#define CHECK_INT(lv, expected, what) do { n_checks++; if (!((lv) == (expected))) { n_fail++; printf("FAIL %s %s\n", cur, what); \
    if ((lv) < 0) { printf("  %s c %lld\n", cur, (long long)(lv)); } else { printf("  %s c %llu\n", cur, (unsigned long long)(lv)); } } } while (0)

typedef ssize_t (*enc_fn)(uint8_t *dst_p, size_t size, const void *src_p);
typedef ssize_t (*dec_fn)(void *dst_p, const uint8_t *src_p, size_t size);
struct type_info { const char *name; size_t size; enc_fn enc; dec_fn dec; };

static uint8_t *exact(const uint8_t *src, size_t n)
{
    uint8_t *p = malloc(n);
    if (n > 0) { memcpy(p, src, n); }
    return p;
}

static void print_hex(const char *label, const uint8_t *p, ssize_t n)
{
    ssize_t i;
    printf("  %s %s ", cur, label);
    if (n < 0) { printf("error %ld", (long)n); }
    for (i = 0; i < n && i < 80; i++) { printf("%02x", p[i]); }
    printf("\n");
}

/* encode must give exactly exp[0..n); every smaller destination must be refused. */
static void check_encode(const struct type_info *ti, const void *v, const uint8_t *exp, size_t n)
{
    uint8_t *b = malloc(n);
    ssize_t r = ti->enc(b, n, v);
    size_t k;
    n_encodes++;
    CHECK(r == (ssize_t)n, "encode: returned length differs from the Python encoding");
    if (r == (ssize_t)n) {
        CHECK(n == 0 || memcmp(b, exp, n) == 0, "encode: bytes differ from the Python encoding");
        if (n != 0 && memcmp(b, exp, n) != 0) { print_hex("c     ", b, r); print_hex("python", exp, (ssize_t)n); }
    } else {
        print_hex("c     ", b, r < (ssize_t)n ? r : (ssize_t)n); print_hex("python", exp, (ssize_t)n);
    }
    free(b);
    for (k = 0; k < n; k++) {
        if (n > 40 && k > 8 && k + 8 < n && (k % 7) != 0) { continue; }
        b = malloc(k);
        r = ti->enc(b, k, v);
        n_small++;
        CHECK(r < 0, "encode: destination smaller than the encoding was not refused");
        free(b);
    }
}
'''

DRIVER_TAIL = r'''
static int hexval(int c)
{
    if (c >= '0' && c <= '9') return c - '0';
    if (c >= 'a' && c <= 'f') return c - 'a' + 10;
    return -1;
}

/* corpus line: <V|P|H> <type index> <hex>
   V: a valid encoding produced by the Python codec: decode must consume all of it and encoding the
      result must reproduce it;
   H: hostile input: no sanitizer report; if accepted, it re-encodes, re-decodes to the same struct and
      re-encodes to the same bytes. */
static void run_corpus(const char *path)
{
    FILE *f = fopen(path, "r");
    static char line[70000];
    if (f == NULL) { printf("FAIL corpus cannot open\n"); n_fail++; return; }
    while (fgets(line, sizeof(line), f) != NULL) {
        char kind = line[0];
        int ti_index = atoi(line + 2);
        char *h = strchr(line + 2, ' ');
        size_t n = 0, cap;
        uint8_t *src, *in, *out, *out2;
        const struct type_info *ti;
        void *a, *b;
        ssize_t r, e, r2, e2;
        if (h == NULL || ti_index < 0 || ti_index >= (int)(sizeof(types) / sizeof(types[0]))) { continue; }
        h++;
        src = malloc(strlen(h) / 2 + 1);
        while (hexval(h[0]) >= 0 && hexval(h[1]) >= 0) { src[n++] = (uint8_t)(hexval(h[0]) * 16 + hexval(h[1])); h += 2; }
        ti = &types[ti_index];
        n_corpus++;
        snprintf(cur, sizeof(cur), "corpus#%ld/%c/%s", n_corpus, kind, ti->name);
        a = calloc(1, ti->size);
        b = calloc(1, ti->size);
        in = exact(src, n);
        r = ti->dec(a, in, n);
        free(in);
        cap = 4 * n + 256;
        out = malloc(cap);
        out2 = malloc(cap);
        if (kind == 'V' || (kind == 'P' && r >= 0)) {
            /* P: a valid encoding of a type with a construct outside the documented subset: the generated
               decoder may refuse it (negative result), but if it accepts it the translation must be faithful. */
            n_valid++;
            CHECK(r == (ssize_t)n, "decode: a valid Python encoding was rejected or not consumed completely");
            if (r == (ssize_t)n) {
                e = ti->enc(out, cap, a);
                CHECK(e == (ssize_t)n && (n == 0 || memcmp(out, src, n) == 0), "decode+encode of a valid Python encoding does not reproduce it");
                if (!(e == (ssize_t)n && (n == 0 || memcmp(out, src, n) == 0))) { print_hex("c     ", out, e); print_hex("python", src, (ssize_t)n); }
            } else {
                printf("  %s decode returned %ld for %lu bytes\n", cur, (long)r, (unsigned long)n);
            }
        } else if (kind == 'H' && r >= 0) {
            n_accepted++;
            CHECK((size_t)r <= n, "decode: consumed more bytes than given");
            e = ti->enc(out, cap, a);
            CHECK(e >= 0, "accepted input cannot be re-encoded");
            if (e >= 0) {
                in = exact(out, (size_t)e);
                r2 = ti->dec(b, in, (size_t)e);
                free(in);
                CHECK(r2 == e, "re-encoded input is not decoded completely");
                if (r2 == e) {
                    CHECK(memcmp(a, b, ti->size) == 0, "re-decoded struct differs");
                    e2 = ti->enc(out2, cap, b);
                    CHECK(e2 == e && (e == 0 || memcmp(out, out2, (size_t)e) == 0), "second re-encoding differs");
                }
                if (e > 0) {
                    in = malloc((size_t)e - 1);
                    r2 = ti->enc(in, (size_t)e - 1, a);
                    CHECK(r2 < 0, "encode: destination one byte too small was not refused");
                    free(in);
                }
            }
        }
        free(out); free(out2); free(a); free(b); free(src);
    }
    fclose(f);
}

int main(int argc, char **argv)
{
    __sanitizer_set_death_callback(on_death);
    run_cases();
    if (argc > 1) { run_corpus(argv[1]); }
    printf("DONE fail=%ld checks=%ld encodes=%ld small=%ld decodes=%ld corpus=%ld accepted=%ld valid=%ld\n",
           n_fail, n_checks, n_encodes, n_small, n_decodes, n_corpus, n_accepted, n_valid);
    return n_fail ? 3 : 0;
}
'''


def make_driver(cm, types, cases):
    """types: [(Module, name, T)]; cases: [dict(id, ti, items, expected(bytes), mode 'full'|'decode_only')]"""
    out = [DRIVER_HEAD]
    for i, (mod, name, t) in enumerate(types):
        p = cm.prefix(mod, name)
        out.append('static ssize_t enc_{i}(uint8_t *d, size_t n, const void *s) {{ return {p}_encode(d, n, (const struct {p}_t *)s); }}'.format(i=i, p=p))
        out.append('static ssize_t dec_{i}(void *d, const uint8_t *s, size_t n) {{ return {p}_decode((struct {p}_t *)d, s, n); }}'.format(i=i, p=p))
    out.append('static const struct type_info types[] = {')
    for i, (mod, name, t) in enumerate(types):
        p = cm.prefix(mod, name)
        out.append('    {{ "{}", sizeof(struct {}_t), enc_{}, dec_{} }},'.format(p, p, i, i))
    out.append('};')
    counter = [0]
    for c in cases:
        mod, name, t = types[c['ti']]
        p = cm.prefix(mod, name)
        exp = c['expected']
        out.append('static void case_{}(void)\n{{'.format(c['id']))
        out.append('    static const uint8_t exp[] = {{ {} }};'.format(cmap.c_bytes(exp)))
        out.append('    const size_t n = {};'.format(len(exp)))
        out.append('    struct {0}_t *vp = malloc(sizeof(struct {0}_t)), *dp = malloc(sizeof(struct {0}_t));'.format(p))
        out.append('    ssize_t r;')
        out.append('    uint8_t *s;')
        out.append('    snprintf(cur, sizeof(cur), "case#{}/{}");'.format(c['id'], p))
        if c['mode'] == 'full':
            out.append('    memset(vp, 0, sizeof(*vp));')
            for st in cmap.set_stmts(c['items'], counter):
                out.append('    ' + st)
            out.append('    check_encode(&types[{}], vp, exp, n);'.format(c['ti']))
        out.append('    memset(dp, 0xa5, sizeof(*dp));')
        out.append('    s = exact(exp, n);')
        out.append('    r = {}_decode(dp, s, n);'.format(p))
        out.append('    free(s);')
        out.append('    n_decodes++;')
        out.append('    CHECK(r == (ssize_t)n, "decode: the Python encoding was rejected or not consumed completely");')
        out.append('    if (r == (ssize_t)n) {')
        for st in cmap.check_stmts(c.get('items_d', c['items']), counter):
            out.append('        ' + st)
        out.append('    } else { printf("  %s decode returned %ld for %lu bytes\\n", cur, (long)r, (unsigned long)n); }')
        out.append('    free(vp); free(dp);')
        out.append('}')
    out.append('static void run_cases(void)\n{')
    for c in cases:
        out.append('    case_{}();'.format(c['id']))
    out.append('}')
    out.append(DRIVER_TAIL)
    return '\n'.join(out) + '\n'


def run(cmd, cwd, timeout, env=None):
    try:
        p = subprocess.run(cmd, cwd=cwd, stdout=subprocess.PIPE, stderr=subprocess.PIPE, timeout=timeout, env=env)
        return p.returncode, p.stdout.decode('utf-8', 'replace'), p.stderr.decode('utf-8', 'replace')
    except subprocess.TimeoutExpired as e:
        return None, (e.stdout or b'').decode('utf-8', 'replace'), (e.stderr or b'').decode('utf-8', 'replace')


def syntax_gate(workdir):
    """gcc -std=c99 on the generated source alone -> (ok, number of warnings, first messages)"""
    rc, out, err = run(['gcc', '-std=c99', '-pedantic', '-Wall', '-Wextra', '-c', 'gen.c', '-o', 'gen_gcc.o'], workdir, 600)
    if rc is None:
        return None, 0, 'gcc did not finish within 600 s (loaded machine): no verdict'
    warnings = len(re.findall(r'warning:', err))
    errors = [l for l in err.splitlines() if 'error:' in l]
    return rc == 0, warnings, '\n'.join(errors[:6]) if errors else err[:800]


def build(workdir):
    """clang ASan+UBSan executable -> (ok, stderr)"""
    rc, out, err = run(['clang', '-std=c99', '-g', '-O1', '-fno-omit-frame-pointer', '-fsanitize=address,undefined',
                        '-fno-sanitize-recover=all', '-Wno-unused-function', 'gen.c', 'driver.c', '-o', 'drv', '-lm'], workdir, 900)
    if rc is None:
        return None, 'clang did not finish within 900 s (loaded machine): no verdict'
    return rc == 0, err


def execute(workdir, corpus_path, timeout=900):
    env = dict(os.environ)
    env['ASAN_OPTIONS'] = 'halt_on_error=1:abort_on_error=0:detect_leaks=0:allocator_may_return_null=1:symbolize=1'
    env['UBSAN_OPTIONS'] = 'halt_on_error=1:print_stacktrace=1'
    env['ASAN_SYMBOLIZER_PATH'] = '/usr/bin/llvm-symbolizer-14'
    return run(['./drv', corpus_path], workdir, timeout, env)


def parse_output(rc, out, err):
    """-> dict(done=counters or None, fails=[(where, what, extra lines)], sanitizer=[report summaries], death_at)"""
    res = {'done': None, 'fails': [], 'sanitizer': [], 'death_at': None, 'rc': rc}
    lines = out.splitlines()
    for i, l in enumerate(lines):
        if l.startswith('FAIL '):
            parts = l.split(' ', 2)
            extra = [x.strip() for x in lines[i + 1:i + 3] if x.startswith('  ')]
            res['fails'].append((parts[1], parts[2] if len(parts) > 2 else '', extra))
        elif l.startswith('DONE '):
            res['done'] = dict((k, int(v)) for k, v in (kv.split('=') for kv in l[5:].split()))
    for m in re.finditer(r'(ERROR: AddressSanitizer: [^\n]*|runtime error: [^\n]*|ERROR: UndefinedBehaviorSanitizer[^\n]*)', err):
        res['sanitizer'].append(m.group(1)[:300])
    m = re.search(r'DEATH-AT ([^\n]*)', err)
    if m:
        res['death_at'] = m.group(1)
    return res
