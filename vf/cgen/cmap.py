"""Value <-> generated C struct, from my AST and the documented conventions of the
generated header (README "generate C source", the golden headers in tests/files/c_source):

  struct <ns>_<module>_<type>_t      one per type assignment (names in snake case)
    INTEGER/BOOLEAN/REAL/ENUMERATED/BIT STRING at top level   -> member `value`
    SEQUENCE members                  -> members named after the components ('-' -> '_')
        OPTIONAL                      -> bool is_<name>_present  before the member
        DEFAULT                       -> member always holds a value (the default when absent)
        extension addition (OER)      -> bool is_<name>_addition_present before the member
    OCTET STRING                      -> { length (if variable), buf[max] }
    BIT STRING (fixed, <= 64)         -> unsigned integer
    SEQUENCE OF                       -> { length (if variable), elements[max] }
    CHOICE                            -> { enum <loc>_choice_e choice; union { ... } value; }
    NULL                              -> no member
    member whose type is a reference to a non-scalar user type -> struct <ns>_<m>_<t>_t
    member whose (referenced) type is INTEGER/BOOLEAN/REAL     -> the scalar itself

An item is one of
  ('int', lvalue, python int)        ('bool', lvalue, bool)       ('real', lvalue, float, 'float'|'double')
  ('bytes', lvalue of the array, bytes)                           ('enumconst', lvalue, C identifier)
"""

import re

from ..asn.ast import all_comps, flat_additions, Group
from ..asn import values as V


class Unmappable(Exception):
    """The value/type is outside what this mapper knows how to place in a struct."""


def canonical(value):
    return re.sub(r'[^a-zA-Z0-9]', '_', value)


def snake(value):
    value = re.sub(r'(.)([A-Z][a-z]+)', r'\1_\2', value)
    value = re.sub(r'(_+)', '_', value)
    value = re.sub(r'([a-z0-9])([A-Z])', r'\1_\2', value).lower()
    return canonical(value)


SCALAR = ('INTEGER', 'BOOLEAN', 'REAL')


class CMap(object):

    def __init__(self, env, codec, ns='ns'):
        self.env = env
        self.codec = codec
        self.ns = ns

    def prefix(self, mod, name):
        return '{}_{}_{}'.format(self.ns, snake(mod.name), snake(name))

    def struct_name(self, mod, name):
        return 'struct {}_t'.format(self.prefix(mod, name))

    # ------------------------------------------------------------------
    def top(self, mod, name, t, v, lv):
        """Items of value v of type assignment `name` (type t, written in mod) stored in the struct at lv."""
        r = self.env.res(mod, t)
        k = r.base.kind
        loc = [self.prefix(mod, name)]
        if k == 'NULL':
            return []
        if k in SCALAR:
            return self.scalar(r, v, lv + '.value')
        if k in ('ENUMERATED', 'BIT STRING'):
            return self.body(r, v, lv + '.value', loc)
        return self.body(r, v, lv, loc)

    def slot(self, mod, t, v, lv, loc):
        r = self.env.res(mod, t)
        k = r.base.kind
        if k == 'NULL':
            return []
        if k in SCALAR:
            return self.scalar(r, v, lv)
        if t.kind == 'REF':
            m2, a = self.env.lookup(mod, t.ref)
            return self.top(m2, a.name, a.t, v, lv)
        return self.body(r, v, lv, loc)

    def scalar(self, r, v, lv):
        k = r.base.kind
        if k == 'INTEGER':
            return [('int', lv, int(v))]
        if k == 'BOOLEAN':
            return [('bool', lv, bool(v))]
        if k == 'REAL':
            fmt = r.base.real_fmt
            if fmt is None:
                raise Unmappable('REAL without binary32/binary64')
            return [('real', lv, float(v), 'float' if fmt == 'binary32' else 'double')]
        raise Unmappable(k)

    def body(self, r, v, lv, loc):
        b = r.base
        k = b.kind
        if k == 'ENUMERATED':
            n = v if isinstance(v, int) else V.enum_number(b, v)
            return [('int', lv, n)]
        if k == 'BIT STRING':
            size = r.size
            if size is None or size.lo != size.hi or size.ext:
                raise Unmappable('BIT STRING without fixed size')
            n = size.lo
            data, nbits = V.clean_bits(v[0], v[1], False)[:2]
            if nbits != n:
                raise Unmappable('bit count != fixed size')
            data = bytes(data) + b'\x00' * 8
            if self.codec == 'uper':
                ival = int.from_bytes(data[:(n + 7) // 8], 'big') >> ((8 - n % 8) % 8) if n else 0
            else:
                maxv = (1 << n) - 1
                tl = 1 if maxv < 256 else 2 if maxv < 65536 else 3 if maxv < 16777216 else 4 if maxv < 4294967296 else 8
                ival = int.from_bytes(data[:tl], 'big')
            return [('int', lv, ival)]
        if k == 'OCTET STRING':
            size = r.size
            if size is None or size.hi is None:
                raise Unmappable('unbounded OCTET STRING')
            out = []
            if size.lo != size.hi:
                out.append(('int', lv + '.length', len(v)))
            out.append(('bytes', lv + '.buf', bytes(v)))
            return out
        if k == 'SEQUENCE':
            return self.members(r, v, lv, loc)
        if k == 'SEQUENCE OF':
            size = r.size
            if size is None or size.hi is None:
                raise Unmappable('unbounded SEQUENCE OF')
            out = []
            if size.lo != size.hi:
                out.append(('int', lv + '.length', len(v)))
            for i, e in enumerate(v):
                out += self.slot(r.mod, b.elem, e, '{}.elements[{}]'.format(lv, i), loc)
            return out
        if k == 'CHOICE':
            for c in all_comps(b):
                if c.name == v[0]:
                    break
            else:
                raise Unmappable('unknown alternative')
            if c in flat_additions(b):
                raise Unmappable('CHOICE extension addition')
            cn = canonical(c.name)
            out = [('enumconst', lv + '.choice', '{}_choice_{}_e'.format('_'.join(loc), cn))]
            out += self.slot(r.mod, c.t, v[1], '{}.value.{}'.format(lv, cn), loc + [cn])
            return out
        raise Unmappable(k)

    def members(self, r, v, lv, loc):
        b = r.base
        out = []
        adds = flat_additions(b)
        if any(isinstance(a, Group) for a in (b.ext or [])):
            raise Unmappable('extension addition group')
        for c in list(b.comps or []) + list(b.comps2 or []) + adds:
            cn = canonical(c.name)
            sub = '{}.{}'.format(lv, cn) if lv else cn
            present = c.name in v
            if c in adds:
                out.append(('bool', '{}.is_{}_addition_present'.format(lv, c.name.replace('-', '_')), present))
                if not present:
                    continue
                val = v[c.name]
            elif c.optional:
                out.append(('bool', '{}.is_{}_present'.format(lv, cn), present))
                if not present:
                    continue
                val = v[c.name]
            elif c.has_default:
                val = v[c.name] if present else c.default
            else:
                if not present:
                    raise Unmappable('mandatory member missing')
                val = v[c.name]
            out += self.slot(r.mod, c.t, val, sub, loc + [cn])
        return out


# ---------------------------------------------------------------------------
def c_int(n):
    if n == -(1 << 63):
        return '(-9223372036854775807LL - 1)'
    if n < 0:
        return '({}LL)'.format(n)
    if n > (1 << 63) - 1:
        return '{}ULL'.format(n)
    if n > (1 << 31) - 1:
        return '{}LL'.format(n)
    return str(n)


def c_bytes(data):
    return ', '.join('0x%02x' % x for x in data) if data else '0'


def c_real(x, ctype):
    import math
    if math.isinf(x):
        return '(-INFINITY)' if x < 0 else 'INFINITY'
    if x != x:
        return 'NAN'
    s = float(x).hex()
    return s + ('f' if ctype == 'float' else '')


def set_stmts(items, counter):
    out = []
    for it in items:
        kind, lv = it[0], it[1]
        if kind == 'int':
            out.append('{} = {};'.format(lv, c_int(it[2])))
        elif kind == 'bool':
            out.append('{} = {};'.format(lv, 'true' if it[2] else 'false'))
        elif kind == 'real':
            out.append('{} = {};'.format(lv, c_real(it[2], it[3])))
        elif kind == 'enumconst':
            out.append('{} = {};'.format(lv, it[2]))
        elif kind == 'bytes':
            if it[2]:
                counter[0] += 1
                out.append('{{ static const uint8_t b{n}[] = {{ {data} }}; memcpy({lv}, b{n}, {len}); }}'.format(
                    n=counter[0], data=c_bytes(it[2]), lv=lv, len=len(it[2])))
    return out


def check_stmts(items, counter):
    out = []
    for it in items:
        kind, lv = it[0], it[1]
        what = lv.replace('"', '')
        if kind == 'int':
            out.append('CHECK_INT({}, {}, "{}");'.format(lv, c_int(it[2]), what))
        elif kind == 'bool':       # read as a byte: a flag the decoder never wrote (0xA5 pre-fill) must fail the check, not trap
            out.append('CHECK(*(const unsigned char *)&({}) == {}, "{}");'.format(lv, 1 if it[2] else 0, what))
        elif kind == 'real':
            counter[0] += 1
            out.append('{{ {t} e{n} = {lit}; CHECK(memcmp(&{lv}, &e{n}, sizeof(e{n})) == 0, "{what}"); }}'.format(
                t=it[3], n=counter[0], lit=c_real(it[2], it[3]), lv=lv, what=what))
        elif kind == 'enumconst':
            out.append('CHECK({} == {}, "{}");'.format(lv, it[2], what))
        elif kind == 'bytes':
            if it[2]:
                counter[0] += 1
                out.append('{{ static const uint8_t b{n}[] = {{ {data} }}; CHECK(memcmp({lv}, b{n}, {len}) == 0, "{what}"); }}'.format(
                    n=counter[0], data=c_bytes(it[2]), lv=lv, len=len(it[2]), what=what))
    return out
