"""Machinery for C09/C10: generated C is compiled with clang ASan+UBSan together with a
driver generated from my AST and executed; see cmap.py (value <-> struct), build.py."""
