"""sys.monitoring (3.12) helpers: step budget, yield injection, anchor line reach."""

import os
import re
import sys
import json
import time
import threading

mon = sys.monitoring
SRC = os.path.join(os.environ.get('ASN1TOOLS_SRC', '/repo'), 'asn1tools')


class BudgetExceeded(BaseException):
    """Raised from the LINE callback to unwind a call that exceeded its
    logical step budget (BaseException so that `except Exception` inside the
    library cannot swallow it)."""


class StepBudget(object):
    """Counts LINE events executed in asn1tools code per top-level call."""
    TOOL = 4

    def __init__(self):
        self.steps = 0
        self.limit = None
        self.on = False
        mon.use_tool_id(self.TOOL, 'vf-steps')
        mon.register_callback(self.TOOL, mon.events.LINE, self._line)

    def _line(self, code, line):
        if not code.co_filename.startswith(SRC):
            return mon.DISABLE
        self.steps += 1
        if self.limit is not None and self.steps > self.limit:
            self.limit = None
            raise BudgetExceeded(self.steps)

    def call(self, fn, limit):
        """Run fn() with a step limit.  Returns (outcome, value, steps) where
        outcome is 'value' | 'error' | 'budget'."""
        self.steps = 0
        self.limit = limit
        mon.set_events(self.TOOL, mon.events.LINE)
        try:
            try:
                v = fn()
                return 'value', v, self.steps
            except BudgetExceeded:
                return 'budget', None, self.steps
            except RecursionError as e:
                return 'error', e, self.steps
            except Exception as e:
                return 'error', e, self.steps
        finally:
            self.limit = None
            mon.set_events(self.TOOL, 0)

    def close(self):
        mon.set_events(self.TOOL, 0)
        mon.free_tool_id(self.TOOL)


class YieldInjector(object):
    """Forces thread switches inside asn1tools code: every n-th LINE event calls
    time.sleep(0).  Records how many times consecutive events came from
    different threads (observed interleavings)."""
    TOOL = 3

    def __init__(self, every=7):
        self.every = every
        self.n = 0
        self.switches = 0
        self.last = None
        self.sig = 0
        mon.use_tool_id(self.TOOL, 'vf-yield')
        mon.register_callback(self.TOOL, mon.events.LINE, self._line)

    def _line(self, code, line):
        if not code.co_filename.startswith(SRC):
            return mon.DISABLE
        tid = threading.get_ident()
        if tid != self.last:
            if self.last is not None:
                self.switches += 1
                self.sig = (self.sig * 1000003 + hash((code.co_name, line))) & 0xffffffffffff
            self.last = tid
        self.n += 1
        if self.n % self.every == 0:
            time.sleep(0)

    def start(self):
        mon.set_events(self.TOOL, mon.events.LINE)

    def stop(self):
        mon.set_events(self.TOOL, 0)

    def close(self):
        self.stop()
        mon.free_tool_id(self.TOOL)


class LineReach(object):
    """Which asn1tools source lines were executed (each location reported once,
    then disabled: near-zero cost)."""
    TOOL = 1

    def __init__(self):
        self.hits = set()
        mon.use_tool_id(self.TOOL, 'vf-reach')
        mon.register_callback(self.TOOL, mon.events.LINE, self._line)
        mon.set_events(self.TOOL, mon.events.LINE)

    def _line(self, code, line):
        fn = code.co_filename
        if fn.startswith(SRC):
            self.hits.add((fn[len(SRC) + 1:], line))
        return mon.DISABLE

    def stop(self):
        mon.set_events(self.TOOL, 0)

    def dump(self):
        return sorted(self.hits)


_ANCH_RE = re.compile(r'((?:asn1tools/)?[A-Za-z_/]+\.py)?:?\s*([0-9][0-9,\-\s]*)')


def parse_anchor_where(where, default_file=None):
    """'asn1tools/codecs/ber.py:186-199,253-273; per.py:1-5' -> [(file, lo, hi)]"""
    out = []
    for part in where.split(';'):
        part = part.strip()
        if not part:
            continue
        m = re.match(r'^(?:asn1tools/)?((?:codecs/|source/c/)?[A-Za-z_]+\.py):(.*)$', part)
        if m:
            fname, rest = m.group(1), m.group(2)
            if '/' not in fname and default_file and default_file.endswith('/' + fname):
                fname = default_file
            elif '/' not in fname and fname not in ('compiler.py', 'parser.py', '__init__.py', 'errors.py', 'compat.py'):
                fname = 'codecs/' + fname
        else:
            fname, rest = default_file, part
        if fname is None:
            continue
        default_file = fname
        for rng in rest.split(','):
            rng = rng.strip()
            mm = re.match(r'^(\d+)(?:-(\d+))?$', rng)
            if mm:
                lo = int(mm.group(1))
                hi = int(mm.group(2) or lo)
                out.append((fname, lo, hi))
    return out


def anchors_for(prop_id):
    path = os.path.join(os.path.dirname(os.path.dirname(os.path.abspath(__file__))), 'properties.jsonl')
    for ln in open(path):
        p = json.loads(ln)
        if p['id'] == prop_id:
            res = []
            for m in p['anchors']['mechanism']:
                w = m['where']
                # first explicit file in the anchor text
                mfile = re.search(r'asn1tools/((?:codecs/|source/c/)?[A-Za-z_]+\.py)', w)
                res.append((m['name'], parse_anchor_where(w, mfile.group(1) if mfile else None)))
            return res
    return []


def executable_lines(relfile):
    """Line numbers that carry code, from the compiled module's code objects."""
    path = os.path.join(SRC, relfile)
    try:
        src = open(path).read()
        code = compile(src, path, 'exec')
    except (OSError, SyntaxError):
        return set()
    lines = set()
    stack = [code]
    while stack:
        c = stack.pop()
        for _, _, ln in c.co_lines():
            if ln is not None:
                lines.add(ln)
        for k in c.co_consts:
            if hasattr(k, 'co_lines'):
                stack.append(k)
    return lines


def anchor_reach(prop_id, hits):
    """hits: iterable of (relfile, line). -> {anchor name: 'hit/total'} """
    hitset = set((f, l) for f, l in hits)
    out = {}
    cache = {}
    for name, ranges in anchors_for(prop_id):
        tot = 0
        got = 0
        for f, lo, hi in ranges:
            if f not in cache:
                cache[f] = executable_lines(f)
            for ln in range(lo, hi + 1):
                if ln in cache[f]:
                    tot += 1
                    if (f, ln) in hitset:
                        got += 1
        out[name] = '{}/{}'.format(got, tot)
    return out
