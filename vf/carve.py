"""Carve-out predicates of known findings.

Each predicate removes exactly the input class of one known finding from the
*bulk* workload, and only while the finding's probe still reproduces (its key
is in `active`).  A predicate sees my AST, the value and the codec - never the
failure - so a different defect of the same property cannot be masked.
"""

from .asn import values as V
from .asn.ast import STRING_KINDS, all_comps

REGISTRY = {}     # key -> (set of properties, predicate(env, mod, t, v, codec) -> bool)


def carve(key, props):
    def deco(fn):
        REGISTRY[key] = (set(props), fn)
        return fn
    return deco


def carved(prop, active, env, mod, t, v, codec):
    for key in active:
        ent = REGISTRY.get(key)
        if ent is None:
            continue
        if ent[1](env, mod, t, v, codec):
            return key
    return None


def any_node(env, mod, t, v, pred):
    try:
        for r, nv, path in V.walk(env, mod, t, v):
            if pred(r, nv):
                return True
    except Exception:
        return False
    return False


def any_type(env, mod, t, pred):
    for r, path, _ in V.walk_types(env, mod, t):
        if pred(r):
            return True
    return False
