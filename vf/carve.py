"""Carve-out predicates of known findings.

Each predicate removes exactly the input class of one known finding from the
*bulk* workload, and only while the finding's probe still reproduces (its key
is in `active`).  A predicate sees my AST, the value and the codec - never the
failure - so a different defect of the same property cannot be masked.
"""

from .asn import values as V
from .asn.ast import STRING_KINDS, all_comps

REGISTRY = {}     # key -> (set of properties, predicate(env, mod, t, v, codec) -> bool)


def carve(key, props):
    def deco(fn):
        REGISTRY[key] = (set(props), fn)
        return fn
    return deco


CURRENT_PROP = None     # property on whose behalf predicates are evaluated (some are wider for the model checks C05/C06)


def carved(prop, active, env, mod, t, v, codec):
    global CURRENT_PROP
    CURRENT_PROP = prop
    for key in active:
        ent = REGISTRY.get(key)
        if ent is None:
            continue
        if ent[1](env, mod, t, v, codec):
            return key
    return None


def any_node(env, mod, t, v, pred):
    try:
        for r, nv, path in V.walk(env, mod, t, v):
            if pred(r, nv):
                return True
    except Exception:
        return False
    return False


def any_type(env, mod, t, pred):
    for r, path, _ in V.walk_types(env, mod, t):
        if pred(r):
            return True
    return False


# ---------------------------------------------------------------------------
# predicates

def _is_kind(r, *kinds):
    return r.base.kind in kinds


@carve('per-size-max-extensible', ['C01', 'C05', 'C16', 'C18', 'C19', 'C13'])
def _per_size_max_ext(env, mod, t, v, codec):
    """PER/UPER: an extensible constraint with a MIN/MAX end point
    (SIZE (n..MAX, ...), INTEGER (MIN..n, ...)) -> TypeError in encode."""
    if codec not in ('per', 'uper'):
        return False
    return any_type(env, mod, t, lambda r: (r.size is not None and r.size.ext and r.size.hi is None
                                            and r.base.kind in ('BIT STRING', 'OCTET STRING', 'SEQUENCE OF', 'SET OF') + tuple(KM))
                    or (r.base.kind == 'INTEGER' and r.rng is not None and r.rng.ext
                        and (r.rng.lo is None or r.rng.hi is None)))


KM = ('NumericString', 'PrintableString', 'IA5String', 'VisibleString', 'BMPString')


def _junk_bits(data, nbits):
    data = bytes(data)
    if len(data) * 8 <= nbits:
        return False
    full, rest = divmod(nbits, 8)
    if rest and data[full] & (0xff >> rest):
        return True
    start = full + (1 if rest else 0)
    return any(data[start:])


@carve('per-named-bits-junk', ['C01', 'C05', 'C16', 'C18', 'C19', 'C13', 'C07'])
def _per_named_bits_junk(env, mod, t, v, codec):
    """PER/UPER named-bit BIT STRING: bits beyond the declared bit count are
    treated as significant (trailing-zero stripping looks at the whole buffer)."""
    if codec not in ('per', 'uper'):
        return False
    return any_node(env, mod, t, v, lambda r, nv: r.base.kind == 'BIT STRING' and r.base.named_bits
                    and isinstance(nv, tuple) and _junk_bits(nv[0], nv[1]))


@carve('oer-utf8string-fixed-size-octets', ['C01', 'C06', 'C16', 'C18', 'C19', 'C13', 'C07'])
def _oer_utf8_fixed(env, mod, t, v, codec):
    """OER UTF8String (SIZE(n)) is encoded as n octets without length: breaks for
    non-ASCII characters."""
    if codec != 'oer':
        return False
    if CURRENT_PROP == 'C06':       # the octets differ from X.696 for every value (no length determinant)
        return any_type(env, mod, t, lambda r: r.base.kind == 'UTF8String' and r.size is not None
                        and not r.size.ext and r.size.lo == r.size.hi)
    return any_node(env, mod, t, v, lambda r, nv: r.base.kind == 'UTF8String' and r.size is not None
                    and not r.size.ext and r.size.lo == r.size.hi and isinstance(nv, str)
                    and len(nv.encode('utf-8')) != len(nv))


# ---- structural predicates (need tagging) ---------------------------------
from .asn import tagging
from .asn.ast import flat_additions, Group


def _constructed_nodes(env, mod, t):
    for r, path, _ in V.walk_types(env, mod, t):
        if r.base.kind in ('SEQUENCE', 'SET', 'CHOICE'):
            yield r


@carve('ber-extensible-choice-member-swallows-next', ['C01', 'C03', 'C04', 'C15', 'C16', 'C18', 'C19', 'C13', 'C07'])
def _ber_ext_choice(env, mod, t, v, codec):
    """BER/DER: an untagged extensible CHOICE that is an OPTIONAL/DEFAULT member of a
    SEQUENCE, or any member of a SET, treats the TLV of a *following* member as an
    unknown extension alternative and swallows it."""
    if codec not in ('ber', 'der'):
        return False
    for r in _constructed_nodes(env, mod, t):
        if r.base.kind == 'CHOICE':
            continue
        auto = tagging.component_autotags(env, r.mod, r.base)
        for c in all_comps(r.base):
            if not (c.optional or c.has_default or r.base.kind == 'SET'
                    or c in flat_additions(r.base)):
                continue
            ls, cr = tagging.layers(env, r.mod, c.t, auto.get(c.name))
            if not ls and env.is_extensible(cr):
                return True
    return False


@carve('ber-sequence-same-tag-members-misassigned', ['C01', 'C03', 'C04', 'C15', 'C16', 'C18', 'C19', 'C13', 'C07'])
def _ber_same_tag(env, mod, t, v, codec):
    """BER/DER SEQUENCE with an OPTIONAL/DEFAULT root member and an extension
    addition of the same tag (legal when a mandatory member separates them): when
    the root member is absent the order-insensitive member loop assigns the
    addition's TLV to it."""
    if codec not in ('ber', 'der'):
        return False
    for r in _constructed_nodes(env, mod, t):
        if r.base.kind != 'SEQUENCE':
            continue
        auto = tagging.component_autotags(env, r.mod, r.base)
        root = set()
        for c in list(r.base.comps or []) + list(r.base.comps2 or []):
            if c.optional or c.has_default:
                root |= tagging.outer_tags(env, r.mod, c.t, auto.get(c.name))
        for c in flat_additions(r.base):
            if tagging.outer_tags(env, r.mod, c.t, auto.get(c.name)) & root:
                return True
    return False


@carve('oer-choice-with-untagged-choice-alternative', ['C01', 'C06', 'C16', 'C18', 'C19', 'C13', 'C07'])
def _oer_choice_in_choice(env, mod, t, v, codec):
    """OER CHOICE whose alternative is an untagged CHOICE: TypeError in encode."""
    if codec != 'oer':
        return False
    for r in _constructed_nodes(env, mod, t):
        if r.base.kind != 'CHOICE':
            continue
        auto = tagging.component_autotags(env, r.mod, r.base)
        for c in all_comps(r.base):
            ls, cr = tagging.layers(env, r.mod, c.t, auto.get(c.name))
            if not ls:
                return True
    return False


def zeroish(env, mod, t, v, depth=0):
    """Over-approximation of 'the PER encoding of v consists of zero bits only'."""
    r = env.res(mod, t)
    b = r.base
    k = b.kind
    try:
        if depth > 8:
            return True
        if k == 'BOOLEAN':
            return v is False
        if k == 'NULL':
            return True
        if k == 'INTEGER':
            return r.rng is not None and r.rng.lo is not None and r.rng.hi is not None and v == r.rng.lo
        if k == 'ENUMERATED':
            root = sorted(b.enum_root, key=lambda x: x[2])
            return v == root[0][0] or v == root[0][2]
        if k == 'REAL':
            return v == 0.0
        if k == 'BIT STRING':
            return not any(bytes(v[0]))
        if k == 'OCTET STRING':
            return not any(bytes(v))
        if k in STRING_KINDS:
            return len(set(v)) <= 1
        if k in ('SEQUENCE', 'SET'):
            for c in all_comps(b):
                if c.name in v:
                    if c.optional:
                        return False
                    if c.has_default and V.canon(env, r.mod, c.t, v[c.name]) != V.canon(env, r.mod, c.t, c.default):
                        return False
                    if not zeroish(env, r.mod, c.t, v[c.name], depth + 1):
                        return False
            return True
        if k == 'CHOICE':
            for c in all_comps(b):
                if c.name == v[0]:
                    return zeroish(env, r.mod, c.t, v[1], depth + 1)
            return True
        if k in ('SEQUENCE OF', 'SET OF'):
            return all(zeroish(env, r.mod, b.elem, e, depth + 1) for e in v)
    except Exception:
        return True
    return False


@carve('per-addition-group-all-zero-bits-dropped', ['C01', 'C05', 'C16', 'C18', 'C19', 'C13', 'C07'])
def _per_group_zero(env, mod, t, v, codec):
    """PER/UPER: an extension addition group whose encoding consists of zero bits
    only (e.g. [[ a INTEGER (0), b BOOLEAN OPTIONAL ]] with a = 0) is treated as
    absent by the encoder and its members are lost."""
    if codec not in ('per', 'uper'):
        return False

    def pred(r, nv):
        if r.base.kind not in ('SEQUENCE', 'SET') or not isinstance(nv, dict):
            return False
        for a in (r.base.ext or []):
            if not isinstance(a, Group):
                continue
            present = [c for c in a.comps if c.name in nv]
            if not present:
                continue
            ok = True
            for c in present:
                if c.optional:
                    ok = False
                    break
                if c.has_default and V.canon(env, r.mod, c.t, nv[c.name]) != V.canon(env, r.mod, c.t, c.default):
                    ok = False
                    break
                if not c.has_default and not zeroish(env, r.mod, c.t, nv[c.name]):
                    ok = False
                    break
            if ok:
                return True
        return False
    return any_node(env, mod, t, v, pred)


def _reaches(env, mod, name, target, seen):
    """Does named type (mod,name) reference target=(modname,name) (transitively)?"""
    key = (mod.name, name)
    if key in seen:
        return False
    seen.add(key)
    try:
        m, a = env.lookup(mod, name)
    except KeyError:
        return False
    stack = [a.t]
    while stack:
        x = stack.pop()
        if x.kind == 'REF':
            try:
                m2, a2 = env.lookup(m, x.ref)
            except KeyError:
                continue
            if (m2.name, a2.name) == target:
                return True
            if _reaches(env, m2, a2.name, target, seen):
                return True
        elif x.kind in ('SEQUENCE', 'SET', 'CHOICE'):
            stack.extend(c.t for c in all_comps(x))
        elif x.kind in ('SEQUENCE OF', 'SET OF'):
            stack.append(x.elem)
    return False


def is_recursive_ref(env, mod, t):
    """t is a REF to a named type that can reach itself."""
    if t.kind != 'REF':
        return False
    try:
        m, a = env.lookup(mod, t.ref)
    except KeyError:
        return False
    return _reaches(env, m, a.name, (m.name, a.name), set())


@carve('oer-choice-alternative-recursive-reference', ['C01', 'C06', 'C16', 'C18', 'C19', 'C13', 'C07'])
def _oer_choice_recursive(env, mod, t, v, codec):
    """OER CHOICE alternative that is an untagged reference closing a recursion
    cycle (compiled to Recursive, which has no tag): TypeError in encode."""
    if codec != 'oer':
        return False
    for r in _constructed_nodes(env, mod, t):
        if r.base.kind != 'CHOICE':
            continue
        auto = tagging.component_autotags(env, r.mod, r.base)
        for c in all_comps(r.base):
            if c.t.tag is None and c.name not in auto and is_recursive_ref(env, r.mod, c.t):
                return True
    return False



@carve('oer-list-of-zero-width-elements-huge-quantity', ['C08'])
def _oer_zero_width_list(env, mod, t, v, codec):
    """OER list whose element type can be encoded in zero octets."""
    if codec != 'oer':
        return False
    from .checks import c08
    return c08.has_zero_width_list(env, mod, t, 'oer')



def _size_on_ref_nodes(env, mod, t, seen=None):
    """Yield (resolved, is_component) for every REF node that carries a SIZE constraint at its use site."""
    if seen is None:
        seen = set()
    stack = [(mod, t, False)]
    while stack:
        m, x, is_comp = stack.pop()
        if x.kind == 'REF':
            if x.size is not None:
                yield env.res(m, x), is_comp
            try:
                m2, a = env.lookup(m, x.ref)
            except KeyError:
                continue
            if (m2.name, a.name) in seen:
                continue
            seen.add((m2.name, a.name))
            stack.append((m2, a.t, False))
        elif x.kind in ('SEQUENCE', 'SET', 'CHOICE'):
            for c in all_comps(x):
                stack.append((m, c.t, True))
        elif x.kind in ('SEQUENCE OF', 'SET OF'):
            stack.append((m, x.elem, False))


@carve('size-constraint-on-type-reference-ignored', ['C19', 'C05', 'C06', 'C11'])
def _size_on_ref(env, mod, t, v, codec):
    """A SIZE constraint written on a type reference is ignored by PER/UPER/OER (and
    JER for BIT STRING) unless the reference is a SEQUENCE/SET/CHOICE member and the referenced type is
    an OCTET STRING (or, PER/UPER only, a known-multiplier string)."""
    if codec not in ('per', 'uper', 'oer', 'jer'):
        return False
    for r, is_comp in _size_on_ref_nodes(env, mod, t):
        k = r.base.kind
        if codec == 'jer':
            if k == 'BIT STRING':      # JER only looks at the SIZE of BIT STRING (fixed size => hex string form)
                return True
            continue
        honoured = is_comp and (k == 'OCTET STRING' or (codec != 'oer' and k in KM))
        if not honoured:
            return True
    return False



@carve('ber-nested-choice-recursive-alternative-loses-level', ['C01', 'C19', 'C03', 'C04', 'C07', 'C13', 'C18'])
def _ber_nested_choice_recursive(env, mod, t, v, codec):
    """BER/DER: CHOICE with an untagged CHOICE alternative that itself has an
    alternative closing a recursion cycle: depending on compile order the inner
    alternative's tag is registered directly in the outer CHOICE and decoding
    drops one CHOICE level."""
    if codec not in ('ber', 'der'):
        return False
    for r in _constructed_nodes(env, mod, t):
        if r.base.kind != 'CHOICE':
            continue
        auto = tagging.component_autotags(env, r.mod, r.base)
        for c in all_comps(r.base):
            ls, cr = tagging.layers(env, r.mod, c.t, auto.get(c.name))
            if ls or cr.base.kind != 'CHOICE':
                continue
            for c2 in all_comps(cr.base):
                if _contains_recursive_ref(env, cr.mod, c2.t):
                    return True
    return False


def _contains_recursive_ref(env, mod, t):
    """t, or a component / element written inline below it, is a reference to a type on a reference cycle."""
    stack = [t]
    while stack:
        x = stack.pop()
        if x.kind == 'REF':
            if is_recursive_ref(env, mod, x):
                return True
        elif x.kind in ('SEQUENCE', 'SET', 'CHOICE'):
            stack.extend(c.t for c in all_comps(x))
        elif x.kind in ('SEQUENCE OF', 'SET OF'):
            stack.append(x.elem)
    return False


@carve('der-set-extension-additions-not-in-tag-order', ['C03'])
def _der_set_additions(env, mod, t, v, codec):
    """DER SET with extension additions: only the root components are sorted by
    tag, additions are appended in declaration order."""
    if codec != 'der':
        return False
    for r in _constructed_nodes(env, mod, t):
        if r.base.kind == 'SET' and flat_additions(r.base):
            return True
    return False



@carve('constraints-check-ignores-size-on-referenced-element', ['C11', 'C12'])
def _cc_size_on_ref(env, mod, t, v, codec):
    """The constraints checker applies a SIZE written on a type reference only
    when the reference is a SEQUENCE/SET/CHOICE member."""
    for r, is_comp in _size_on_ref_nodes(env, mod, t):
        if not is_comp:
            return True
    return False



@carve('error-path-drops-repeated-member-name', ['C12'])
def _path_dup(env, mod, t, v, codec):
    """C12 probes only: v = (corruption kind, path).  A path in which the same member name
    occurs twice in a row (x.x) loses one level when both levels are the same compiled object."""
    if not (isinstance(v, tuple) and len(v) == 2 and isinstance(v[1], tuple)):
        return False
    names = [p for p in v[1] if isinstance(p, str)]
    return any(a == b for a, b in zip(names, names[1:]))



@carve('xer-carriage-return-not-escaped', ['C02', 'C07', 'C13', 'C18', 'C19'])
def _xer_cr(env, mod, t, v, codec):
    """XER: a carriage return in a character string is written raw and comes back as a line feed."""
    if codec != 'xer':
        return False
    return any_node(env, mod, t, v, lambda r, nv: isinstance(nv, str) and '\r' in nv)



@carve('per-semi-constrained-integer-encoded-as-unconstrained', ['C05'])
def _per_semi(env, mod, t, v, codec):
    """PER/UPER INTEGER (lb..MAX) is encoded as an unconstrained whole number."""
    if codec not in ('per', 'uper'):
        return False
    return any_node(env, mod, t, v, lambda r, nv: r.base.kind == 'INTEGER' and r.rng is not None
                    and r.rng.lo is not None and r.rng.hi is None)


@carve('per-universalstring-not-known-multiplier', ['C05'])
def _per_universal(env, mod, t, v, codec):
    """PER/UPER UniversalString ignores SIZE and FROM constraints (handled as an unconstrained octet-based string)."""
    if codec not in ('per', 'uper'):
        return False
    return any_node(env, mod, t, v, lambda r, nv: r.base.kind == 'UniversalString' and (r.size is not None or r.alpha is not None))


def _km_bits(r, aligned):
    from .models import x691
    chars = r.alpha.chars()
    B = (len(chars) - 1).bit_length()
    b = B
    if aligned:
        b = 1
        while b < B:
            b *= 2
        if B == 0:
            b = 0
    return chars, b


@carve('per-permitted-alphabet-index-used-where-value-fits', ['C05'])
def _per_alpha_index(env, mod, t, v, codec):
    """PER/UPER FROM-constrained known-multiplier string whose largest character value is <= 2^b - 1:
    X.691 30.5.4 encodes each character as its own value, the library as its index in the alphabet."""
    if codec not in ('per', 'uper'):
        return False

    def pred(r, nv):
        if r.base.kind not in KM or r.alpha is None or r.alpha.ext or not isinstance(nv, str):
            return False
        chars, b = _km_bits(r, codec == 'per')
        if ord(chars[-1]) > (1 << b) - 1:
            return False
        return any(chars.index(ch) != ord(ch) for ch in nv)
    return any_node(env, mod, t, v, pred)



@carve('per-aligned-numericstring-from-indexes-full-alphabet', ['C05'])
def _per_numeric_from(env, mod, t, v, codec):
    """Aligned PER NumericString with FROM: characters are indexed in the full NumericString
    alphabet (space, 0-9) instead of the permitted alphabet."""
    if codec != 'per':
        return False
    full = ' 0123456789'

    def pred(r, nv):
        if r.base.kind != 'NumericString' or r.alpha is None or r.alpha.ext or not isinstance(nv, str):
            return False
        chars = r.alpha.chars()
        return any(chars.index(ch) != full.index(ch) for ch in nv if ch in chars)
    return any_node(env, mod, t, v, pred)



@carve('per-choice-index-in-declaration-order', ['C05'])
def _per_choice_order(env, mod, t, v, codec):
    """PER/UPER CHOICE index: the library numbers the root alternatives in declaration order,
    X.691 23.2 in canonical tag order (differs when tags are not ascending, e.g. without AUTOMATIC TAGS)."""
    if codec not in ('per', 'uper'):
        return False

    def pred(r, nv):
        if r.base.kind != 'CHOICE' or not isinstance(nv, tuple):
            return False
        root = list(r.base.comps or [])
        auto = tagging.component_autotags(env, r.mod, r.base)
        try:
            order = sorted(root, key=lambda c: tagging.tag_key(tagging.min_tag(env, r.mod, c.t, auto.get(c.name))))
        except Exception:
            return True
        return [c.name for c in order] != [c.name for c in root]
    return any_node(env, mod, t, v, pred)



@carve('extensibility-implied-not-applied-to-nested-types', ['C05', 'C06', 'C07'])
def _ext_implied_nested(env, mod, t, v, codec):
    """EXTENSIBILITY IMPLIED module: a SEQUENCE/SET/CHOICE written inline as the element of a
    SEQUENCE OF / SET OF does not get the implied extension marker."""
    if codec not in ('per', 'uper', 'oer'):
        return False
    for r, path, _ in V.walk_types(env, mod, t):
        if r.base.kind in ('SEQUENCE OF', 'SET OF') and r.mod.ext_implied:
            e = r.base.elem
            if e.kind in ('SEQUENCE', 'SET', 'CHOICE', 'SEQUENCE OF', 'SET OF'):
                return True
    return False


@carve('per-open-type-with-empty-content', ['C05'])
def _per_open_empty(env, mod, t, v, codec):
    """PER/UPER: an extension addition (or CHOICE extension alternative) whose own encoding is empty is
    wrapped with length 0; X.691 requires one zero octet (length 1)."""
    if codec not in ('per', 'uper'):
        return False
    from .models import x691

    def zero_bits(m, ty, val):
        try:
            w = x691.W(codec == 'per')
            x691.Per(env, codec == 'per').enc(w, m, ty, val)
            return w.n == 0
        except Exception:
            return True

    def pred(r, nv):
        b = r.base
        if b.kind in ('SEQUENCE', 'SET') and isinstance(nv, dict):
            for a in (b.ext or []):
                if isinstance(a, Group):
                    continue
                if a.name in nv and zero_bits(r.mod, a.t, nv[a.name]):
                    return True
        if b.kind == 'CHOICE' and isinstance(nv, tuple):
            for c in flat_additions(b):
                if c.name == nv[0] and zero_bits(r.mod, c.t, nv[1]):
                    return True
        return False
    return any_node(env, mod, t, v, pred)


@carve('oer-addition-group-members-are-separate-additions', ['C06'])
def _oer_group_flat(env, mod, t, v, codec):
    """OER: the members of an extension addition group [[ ]] get one presence bit and one open type
    each instead of the group being one addition encoded as a SEQUENCE."""
    if codec != 'oer':
        return False

    def pred(r, nv):
        if r.base.kind not in ('SEQUENCE', 'SET') or not isinstance(nv, dict):
            return False
        if not any(isinstance(a, Group) for a in (r.base.ext or [])):
            return False
        return any(c.name in nv for c in flat_additions(r.base))
    return any_node(env, mod, t, v, pred)


@carve('der-sequence-second-root-list-before-additions', ['C03'])
def _der_root2(env, mod, t, v, codec):
    """BER/DER SEQUENCE with a second root list: root2 components are encoded before the additions."""
    if codec not in ('der', 'ber'):
        return False

    def pred(r, nv):
        b = r.base
        if b.kind != 'SEQUENCE' or not b.comps2 or not isinstance(nv, dict):
            return False
        return any(c.name in nv for c in flat_additions(b)) and any(c.name in nv for c in b.comps2)
    return any_node(env, mod, t, v, pred)


@carve('automatic-tags-second-root-list-numbered-after-additions', ['C03'])
def _auto_root2(env, mod, t, v, codec):
    """AUTOMATIC TAGS: a constructed type with a second root list and additions is tagged in textual order."""
    if codec not in ('der', 'ber'):
        return False
    for r in _constructed_nodes(env, mod, t):
        b = r.base
        if b.comps2 and flat_additions(b) and tagging.component_autotags(env, r.mod, b):
            return True
    return False


@carve('ber-unknown-alternative-of-nested-untagged-extensible-choice', ['C07'])
def _ber_nested_ext_choice(env, mod, t, v, codec):
    """BER/DER: CHOICE with an alternative that is an untagged extensible CHOICE (unknown inner alternatives are rejected)."""
    if codec not in ('ber', 'der'):
        return False
    for r in _constructed_nodes(env, mod, t):
        if r.base.kind != 'CHOICE':
            continue
        auto = tagging.component_autotags(env, r.mod, r.base)
        for c in all_comps(r.base):
            ls, cr = tagging.layers(env, r.mod, c.t, auto.get(c.name))
            if not ls and env.is_extensible(cr):
                return True
    return False


def _recursive_aliases(env):
    """(module name, type name) of every type assignment that is a bare reference and lies on a reference cycle."""
    out = set()
    for m in env.spec.modules:
        for name, t in m.types():
            if t.kind == 'REF' and _reaches(env, m, name, (m.name, name), set()):
                out.add((m.name, name))
    return out


@carve('xer-list-of-alias-of-recursive-type-recursion-error', ['C19', 'C01', 'C02', 'C13', 'C18', 'C07'])
def _xer_alias_recursive(env, mod, t, v, codec):
    """XER: SEQUENCE/SET OF whose element is an alias (A ::= B) on a reference cycle: RecursionError in encode,
    depending on the order of the assignments."""
    if codec != 'xer':
        return False
    aliases = _recursive_aliases(env)
    if not aliases:
        return False
    seen = set()
    stack = [(mod, t)]
    while stack:
        m, x = stack.pop()
        if x.kind == 'REF':
            try:
                m2, a2 = env.lookup(m, x.ref)
            except KeyError:
                continue
            if (m2.name, a2.name) in aliases:
                return True
            if (m2.name, a2.name) in seen:
                continue
            seen.add((m2.name, a2.name))
            stack.append((m2, a2.t))
        elif x.kind in ('SEQUENCE', 'SET', 'CHOICE'):
            stack.extend((m, c.t) for c in all_comps(x))
        elif x.kind in ('SEQUENCE OF', 'SET OF'):
            stack.append((m, x.elem))
    return False


@carve('ber-choice-alternatives-of-one-recursive-type', ['C19'])
def _ber_choice_two_alts_one_recursive(env, mod, t, v, codec):
    """BER/DER: a CHOICE with two alternatives that reference the same recursive named type (one of them re-tagged)."""
    if codec not in ('ber', 'der'):
        return False
    for r in _constructed_nodes(env, mod, t):
        if r.base.kind != 'CHOICE':
            continue
        seen = {}
        for c in all_comps(r.base):
            if c.t.kind == 'REF' and is_recursive_ref(env, r.mod, c.t):
                try:
                    m2, a2 = env.lookup(r.mod, c.t.ref)
                except KeyError:
                    continue
                k = (m2.name, a2.name)
                if k in seen:
                    return True
                seen[k] = True
    return False


@carve('ber-retagged-reference-to-recursive-explicit-type', ['C01', 'C03', 'C04', 'C07', 'C13', 'C15', 'C16', 'C18', 'C19'])
def _ber_retagged_recursive_explicit(env, mod, t, v, codec):
    """BER/DER: a component/alternative that re-tags a reference to a recursive named type whose own definition carries an
    EXPLICIT tag."""
    if codec not in ('ber', 'der'):
        return False
    for r in _constructed_nodes(env, mod, t):
        auto = tagging.component_autotags(env, r.mod, r.base)
        for c in all_comps(r.base):
            if c.t.kind != 'REF' or not (c.t.tag is not None or c.name in auto):
                continue
            if not is_recursive_ref(env, r.mod, c.t):
                continue
            try:
                m2, a2 = env.lookup(r.mod, c.t.ref)
            except KeyError:
                continue
            if a2.t.tag is not None and tagging.tag_mode(env, a2.t.tag, m2, a2.t) == 'EXPLICIT':
                return True
    return False


@carve('implicit-tag-over-tagged-reference-to-choice-made-explicit', ['C03'])
def _implicit_over_tagged_choice_ref(env, mod, t, v, codec):
    """A component tag without EXPLICIT/IMPLICIT keyword (or an automatic tag) on a reference whose chain carries a tag and ends
    in a CHOICE."""
    if codec not in ('der', 'ber'):
        return False
    for r in _constructed_nodes(env, mod, t):
        auto = tagging.component_autotags(env, r.mod, r.base)
        for c in all_comps(r.base):
            if c.t.kind != 'REF':
                continue
            own = c.t.tag
            if own is None and c.name not in auto:
                continue
            if own is not None and own.mode:
                continue
            cr = env.res(r.mod, c.t)
            if cr.base.kind != 'CHOICE':
                continue
            if len(cr.tags) > (1 if own is not None else 0):
                return True
    return False
