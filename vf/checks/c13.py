"""C13 - compiling is independent of what was compiled before from the same dictionary.

Metamorphic oracle: after any history of <= 6 steps over {compile_dict(d, codec,
numeric_enums), d = eval(pformat(d)), d = deepcopy(d)} the final codec object must
behave like compile_string(text, codec, numeric_enums) on a probe battery (bytes
of valid values, decoded values, class + text of errors for corrupted values).
Invariant monitor: the parse output consists of plain Python data only and
pformat/eval reproduces it.
"""

import copy
import pprint

from ..asn.gen import Profile
from ..asn import values as V
from .. import core
from . import common
from .common import GeneratedSpec
from .c18 import corrupt_value, outcome

ID = 'C13'
LEVEL = 'exploration'
CODECS = ['ber', 'der', 'per', 'uper', 'oer', 'jer', 'xer', 'gser']
RULE = ('generated modules (plus COMPONENTS OF same-module and imported, EXTENSIBILITY IMPLIED, BIT/OCTET STRING and ENUMERATED '
        'defaults, imports) x histories of 1..6 steps over compile_dict for 8 codecs x numeric_enums, pformat/eval and deepcopy steps, '
        'ending in a compile whose result is compared with a fresh compile_string on a battery of valid and corrupted probe values; '
        'distinct by (history signature, final codec/numeric, module key)')
ASSUMPTIONS = ['observable behaviour = bytes of probe values, repr of decoded values, class+text of errors on corrupted probes',
               'reference = compile_string on the original text in the same process']
REPORT = ['modules', 'parameterized_modules', 'histories', 'evaluations', 'probe_comparisons', 'plain_data_walks', 'pformat_eval_roundtrips',
          'ordered_pairs_covered']
FLOORS = {'quick': {'histories': 1000, 'probe_comparisons': 20000},
          'thorough': {'histories': 4000, 'probe_comparisons': 80000}}
TIMEOUT = {'quick': 1800, 'thorough': 5400}
PLAIN = (dict, list, tuple, str, int, float, bool, bytes, type(None))


def shards(tier):
    return 32 if tier == 'quick' else 64


def params(tier):
    if tier == 'quick':
        return {'modules': 4, 'histories': 10, 'values': 4}
    return {'modules': 12, 'histories': 30, 'values': 6}


def profile(tier):
    p = Profile()
    p.p_big_size = 0.0
    p.p_components_of = 0.35
    p.p_multi_module = 0.4
    p.p_ext_implied = 0.2
    p.p_default = 0.35
    p.n_types = (2, 6)
    return p


def walk_plain(o, path='d'):
    """-> path of the first non-plain object, or None."""
    if not isinstance(o, PLAIN):
        return '{}: {}'.format(path, type(o).__name__)
    if isinstance(o, dict):
        for k, v in o.items():
            if not isinstance(k, (str, int)):
                return '{}: key {}'.format(path, type(k).__name__)
            r = walk_plain(v, '{}[{!r}]'.format(path, k))
            if r:
                return r
    elif isinstance(o, (list, tuple)):
        for i, v in enumerate(o):
            r = walk_plain(v, '{}[{}]'.format(path, i))
            if r:
                return r
    return None


def battery(gs, rnd, vg, nvalues):
    """[(type name, kind, value)] probes in name convention."""
    out = []
    for mod, name, t in gs.types():
        for _ in range(nvalues):
            try:
                v = vg.value(mod, t)
            except Exception:
                continue
            out.append((mod, name, t, 'valid', v))
            if rnd.random() < 0.5:
                out.append((mod, name, t, 'corrupt', corrupt_value(rnd, v)))
    return out


def behaviour(gs, spec, probes, numeric):
    """Observable behaviour of a Specification on the probe battery."""
    res = []
    for mod, name, t, kind, v in probes:
        val = V.to_numeric(gs.env, mod, t, v) if (numeric and kind == 'valid') else v
        enc = outcome(lambda: bytes(spec.encode(name, val, check_constraints=True)))
        res.append(enc)
        if enc[0] == 'value':
            data = eval(enc[1])
            res.append(outcome(lambda: spec.decode(name, data)))
        else:
            res.append(None)
    return res


def run_shard(ctx):
    at = common.asn1tools()
    reach = common.Reach(ctx)
    st = ctx.stats
    pr = params(ctx.tier)
    prof = profile(ctx.tier)
    rnd = ctx.rnd
    pairs = set()
    for i in range(pr['modules']):
        if not ctx.time_left():
            break
        key = '{}/{}/{}/{}'.format(ctx.seed, ID, ctx.shard, i)
        gs = GeneratedSpec(key, prof)
        st.inc('modules')
        if not gs.legal:
            continue
        for f, n in gs.features.items():
            if f.startswith(('components_of', 'ext_implied', 'default_', 'multi_module', 'imported')):
                st.inc('feature:' + f, n)
        try:
            d0 = at.parse_string(gs.text)
        except Exception:
            st.inc('rejected_by_parser')
            continue
        # invariant: plain data, reproducible through pformat/eval
        st.inc('plain_data_walks')
        bad = walk_plain(d0)
        if bad:
            ctx.violation('parse_output_not_plain_data', {'text': gs.text}, {'where': bad})
        st.inc('pformat_eval_roundtrips')
        try:
            same = eval(pprint.pformat(d0)) == d0
        except Exception as e:
            same = False
        if not same:
            ctx.violation('pformat_eval_does_not_reproduce_parse_output', {'text': gs.text}, {})
        vg = V.ValueGen(gs.env, gs.rnd, ctx.tier, max_len=24, big_len_p=0.0)
        probes = battery(gs, rnd, vg, pr['values'])
        run_histories(ctx, at, rnd, pairs, pr, key, gs.text, d0, probes, gs.has_enum,
                      lambda spec, numeric, gs=gs, probes=probes: behaviour(gs, spec, probes, numeric))
    # parameterized types (not produced by my generator): a small family of legal texts with hand-made probes
    for i in range(1 if ctx.tier == 'quick' else 3):
        key = '{}/{}/{}/param{}'.format(ctx.seed, ID, ctx.shard, i)
        text, pprobes = param_family(core.random.Random(key))
        st.inc('modules')
        st.inc('parameterized_modules')
        try:
            d0 = at.parse_string(text)
        except Exception:
            st.inc('rejected_by_parser')
            continue
        probes = [(None, name, None, 'valid', v) for name, v in pprobes]
        run_histories(ctx, at, rnd, pairs, pr, key, text, d0, probes, False,
                      lambda spec, numeric, pprobes=pprobes: plain_behaviour(spec, pprobes))
    st.inc('ordered_pairs_covered', 0)
    for a, b in pairs:
        st.add('pairs', '{}{}>{}{}'.format(a[0], '#' if a[1] else '', b[0], '#' if b[1] else ''))
    reach.close()


ACTUALS = [('INTEGER', [5, -3]), ('BOOLEAN', [True]), ('OCTET STRING', [b'\x01\x02']),
           ('CHOICE { x INTEGER, y BOOLEAN }', [('x', 5), ('y', True)]),
           ('SEQUENCE { p NULL, q INTEGER OPTIONAL }', [{'p': None}, {'p': None, 'q': 3}]),
           ('IA5String', ['ab']), ('SEQUENCE OF INTEGER', [[1, 2], []]), ('NULL', [None]),
           ('CHOICE { u NULL, w OCTET STRING }', [('u', None), ('w', b'\x05')])]


def param_family(rnd):
    """-> (text, [(type name, value)]): parameterized types instantiated with built-in, structured and CHOICE actual parameters."""
    tags = rnd.choice(['', 'IMPLICIT TAGS', 'EXPLICIT TAGS', 'AUTOMATIC TAGS'])
    mode = rnd.choice(['', '', 'EXPLICIT '])
    a1, a2, a3, a4 = [rnd.choice(ACTUALS) for _ in range(4)]
    text = ('P DEFINITIONS {tags} ::= BEGIN\n'
            'Holder {{T}} ::= SEQUENCE {{ a [0] {mode}T, b INTEGER }}\n'
            'Pair {{T1, T2}} ::= SEQUENCE {{ x T1, y [1] T2 OPTIONAL }}\n'
            'A ::= Holder {{ {a1} }}\n'
            'B ::= Pair {{ {a2}, {a3} }}\n'
            'C ::= SEQUENCE {{ h Holder {{ {a4} }}, k BOOLEAN }}\n'
            'END\n').format(tags=tags, mode=mode, a1=a1[0], a2=a2[0], a3=a3[0], a4=a4[0])
    probes = []
    for v in a1[1]:
        probes.append(('A', {'a': v, 'b': 1}))
    for v in a2[1]:
        probes.append(('B', {'x': v}))
        probes.append(('B', {'x': v, 'y': a3[1][0]}))
    for v in a4[1]:
        probes.append(('C', {'h': {'a': v, 'b': -2}, 'k': True}))
    return text, probes


def plain_behaviour(spec, probes):
    res = []
    for name, v in probes:
        enc = outcome(lambda: bytes(spec.encode(name, v)))
        res.append(enc)
        if enc[0] == 'value':
            data = eval(enc[1])
            res.append(outcome(lambda: spec.decode(name, data)))
        else:
            res.append(None)
    return res


def run_histories(ctx, at, rnd, pairs, pr, key, text, d0, probes, has_enum, behave):
    st = ctx.stats
    if True:
        refs = {}
        for h in range(pr['histories']):
            d = copy.deepcopy(d0)
            steps = []
            nsteps = rnd.randint(1, 6)
            last = None
            dead = False
            for s in range(nsteps):
                x = rnd.random()
                if x < 0.7:
                    codec = rnd.choice(CODECS)
                    numeric = rnd.random() < (0.5 if has_enum else 0.15)
                    steps.append('{}{}'.format(codec, '#' if numeric else ''))
                    try:
                        at.compile_dict(d, codec, numeric_enums=numeric)
                    except Exception:
                        steps[-1] += '!'
                    if last is not None:
                        pairs.add((last, (codec, numeric)))
                    last = (codec, numeric)
                elif x < 0.85:
                    steps.append('pf')
                    try:
                        d = eval(pprint.pformat(d))
                    except Exception as e:
                        ctx.violation('pformat_eval_fails_after_compile', {'text': text, 'history': steps},
                                      {'error': common.short_exc(e)})
                        dead = True
                        break
                else:
                    steps.append('dc')
                    d = copy.deepcopy(d)
            if dead:
                continue
            codec = rnd.choice(CODECS)
            numeric = rnd.random() < (0.5 if has_enum else 0.15)
            if last is not None:
                pairs.add((last, (codec, numeric)))
            st.inc('histories')
            st.inc('history_len:{}'.format(len(steps)))
            rk = (codec, numeric)
            if rk not in refs:
                try:
                    ref = at.compile_string(text, codec, numeric_enums=numeric)
                    refs[rk] = ('ok', behave(ref, numeric))
                except Exception as e:
                    refs[rk] = ('fail', common.short_exc(e))
            case = {'text': text, 'history': steps, 'final': [codec, numeric], 'key': key}
            try:
                final = at.compile_dict(d, codec, numeric_enums=numeric)
            except Exception as e:
                if refs[rk][0] == 'ok':
                    ctx.violation('compile_fails_after_history_but_not_fresh', case, {'error': common.short_exc(e)})
                else:
                    st.inc('rejected_by_compiler_both')
                continue
            if refs[rk][0] != 'ok':
                ctx.violation('compile_succeeds_after_history_but_fresh_fails', case, {'fresh_error': refs[rk][1]})
                continue
            got = behave(final, numeric)
            st.inc('evaluations')
            st.inc('probe_comparisons', len(got))
            exp = refs[rk][1]
            if got != exp:
                for j, (g, e) in enumerate(zip(got, exp)):
                    if g != e:
                        pj = probes[j // 2]
                        ctx.violation('behaviour_differs_from_fresh_compile', dict(case, probe=[pj[1], pj[3], core.jsonable(pj[4])]),
                                      {'history': ' > '.join(steps), 'final': '{}{}'.format(codec, '#' if numeric else ''),
                                       'probe_type': pj[1], 'probe_kind': pj[3], 'step': 'encode' if j % 2 == 0 else 'decode',
                                       'fresh': repr(e)[:250], 'after_history': repr(g)[:250]})
                        break
            st.mark((' '.join(steps), codec, numeric, key))
            if len(st.samples) < 3:
                st.sample({'history': steps, 'final_codec': codec, 'numeric_enums': numeric, 'probes': len(probes),
                           'equal_to_fresh_compile': got == exp})


def coverage_extra(agg):
    pairs = agg['sets'].pop('pairs', set())
    agg['c']['ordered_pairs_covered'] = len(pairs)
    return {'anchor_reach': common.reach_summary(ID, agg), 'ordered_codec_option_pairs_covered_of_256': len(pairs)}


def replay(case):
    at = common.asn1tools()
    d = at.parse_string(case['text'])
    for s in case['history']:
        if s == 'pf':
            d = eval(pprint.pformat(d))
        elif s == 'dc':
            d = copy.deepcopy(d)
        else:
            codec = s.rstrip('!').rstrip('#')
            try:
                at.compile_dict(d, codec, numeric_enums='#' in s)
            except Exception:
                pass
    codec, numeric = case['final']
    out = []
    try:
        final = at.compile_dict(d, codec, numeric_enums=numeric)
        ref = at.compile_string(case['text'], codec, numeric_enums=numeric)
    except Exception as e:
        return [{'error': common.short_exc(e)}]
    if 'probe' in case:
        name, kind, v = case['probe'][0], case['probe'][1], core.unjson(case['probe'][2])
        for spec_pair in [(final, ref)]:
            a = outcome(lambda: bytes(final.encode(name, v, check_constraints=True)))
            b = outcome(lambda: bytes(ref.encode(name, v, check_constraints=True)))
            if a != b:
                out.append({'after_history': a, 'fresh': b})
            elif a[0] == 'value':
                data = eval(a[1])
                a2 = outcome(lambda: final.decode(name, data))
                b2 = outcome(lambda: ref.decode(name, data))
                if a2 != b2:
                    out.append({'after_history': a2, 'fresh': b2})
    return out
