"""C07 - extension additions keep old and new versions of a type interoperable.

Oracle: V2 is derived from V1 (my AST) by legal extension steps at random
extensible nodes; V1.decode(V2.encode(v2)) must equal the V1 projection of v2
(computed on my ASTs) and V2.decode(V1.encode(v1)) must equal v1.
"""

import copy

from ..asn.gen import Profile, is_legal
from ..asn.ast import T, Comp, Group, Range, Tag, Env, CONTEXT, all_comps, flat_additions, NODEFAULT
from ..asn.text import spec_text
from ..asn import tagging
from ..asn import values as V
from .. import core
from . import common
from .common import GeneratedSpec

ID = 'C07'
LEVEL = 'exploration'
CODECS = ['ber', 'der', 'per', 'uper', 'oer', 'jer', 'xer']
RULE = ('generated V1 modules with >= 1 extensible node; V2 = V1 + 1..5 steps from {add component after the marker, add [[group]], add '
        'CHOICE alternative, add ENUMERATED item, widen an extensible range/SIZE} at random extensible nodes of any depth; values of V2 '
        '(biased to use the additions) and of V1; 7 decoding codecs, both directions; distinct by (codec, step kinds, direction, type shape)')
ASSUMPTIONS = ['the projection of a V2 value onto V1 is computed on my ASTs: unknown components dropped, unknown CHOICE alternative -> (None, None), '
               'unknown ENUMERATED item -> None',
               'V2 modules are re-checked for X.680 tag distinctness by my own tag computation before use']
REPORT = ['pairs', 'evaluations', 'v2_to_v1', 'v1_to_v2', 'v2_values_using_additions', 'with_following_component',
          'step:add_component', 'step:add_group', 'step:add_alternative', 'step:add_enum_item', 'step:widen', 'carved_out']
FLOORS = {'quick': {'evaluations': 15000, 'v2_values_using_additions': 1500},
          'thorough': {'evaluations': 60000, 'v2_values_using_additions': 6000}}
TIMEOUT = {'quick': 1800, 'thorough': 5400}


def shards(tier):
    return 32 if tier == 'quick' else 64


def params(tier):
    if tier == 'quick':
        return {'pairs': 5, 'values': 6}
    return {'pairs': 15, 'values': 9}


def profile(tier):
    p = Profile()
    p.p_big_size = 0.0
    p.p_ext = 0.7
    p.p_enum_ext = 0.6
    p.p_cons_ext = 0.35
    p.p_ext_implied = 0.0
    p.p_root2 = 0.0
    p.n_types = (2, 5)
    return p


def small_type(rnd, n):
    x = rnd.randrange(9)
    if x == 0:
        return T('INTEGER', rng=Range(0, rnd.choice([1, 7, 255, 256, 65535, 100000])))
    if x == 1:
        return T('BOOLEAN')
    if x == 2:
        return T('OCTET STRING', size=Range(0, rnd.choice([2, 8, 20])))
    if x == 3:
        return T('IA5String', size=Range(1, 10))
    if x == 4:
        return T('SEQUENCE', comps=[Comp('p{}'.format(n), T('INTEGER')),
                                    Comp('q{}'.format(n), T('BOOLEAN'), optional=True)])
    if x == 5:
        return T('SEQUENCE OF', elem=T('INTEGER', rng=Range(0, 300)), size=Range(0, 4))
    if x == 6:
        return T('ENUMERATED', enum_root=[('ea{}'.format(n), None, 0), ('eb{}'.format(n), None, 1)])
    if x == 7:
        return T('NULL')
    return T('UTF8String')


def ext_nodes(t, out, depth=0):
    if t.kind in ('SEQUENCE', 'SET', 'CHOICE'):
        if t.ext is not None:
            out.append(('members', t, depth))
        for c in all_comps(t):
            ext_nodes(c.t, out, depth + 1)
    elif t.kind in ('SEQUENCE OF', 'SET OF'):
        if t.size is not None and t.size.ext:
            out.append(('size', t, depth))
        ext_nodes(t.elem, out, depth + 1)
    elif t.kind == 'ENUMERATED':
        if t.enum_ext is not None:
            out.append(('enum', t, depth))
    elif t.kind == 'INTEGER':
        if t.rng is not None and t.rng.ext and t.rng.hi is not None:
            out.append(('range', t, depth))
    elif t.size is not None and t.size.ext and t.size.hi is not None and t.kind != 'REF':
        out.append(('size', t, depth))


def evolve(spec, rnd):
    """-> (V2 spec, list of step kinds) or None."""
    s2 = copy.deepcopy(spec)
    env = Env(s2)
    steps = []
    counter = [0]
    for _ in range(rnd.randint(1, 5)):
        nodes = []
        for m in s2.modules:
            for name, t in m.types():
                tmp = []
                ext_nodes(t, tmp)
                nodes.extend((m, k, n, d) for k, n, d in tmp)
        if not nodes:
            break
        m, kind, node, depth = rnd.choice(nodes)
        counter[0] += 1
        n = counter[0]
        if kind == 'members':
            names = set(c.name for c in all_comps(node))
            tagged = any(c.t.tag is not None for c in all_comps(node))
            nexttag = max([c.t.tag.num for c in all_comps(node) if c.t.tag is not None and c.t.tag.cls == CONTEXT] + [-1]) + 1

            def newcomp(i, choice):
                nm = 'zz{}x{}'.format(n, i)
                ct = small_type(rnd, n * 10 + i)
                if tagged:
                    ct.tag = Tag(CONTEXT, nexttag + i)
                return Comp(nm, ct, optional=(not choice and rnd.random() < 0.6))
            if node.kind == 'CHOICE':
                node.ext.append(newcomp(0, True))
                step = 'add_alternative'
            elif rnd.random() < 0.3:
                node.ext.append(Group([newcomp(i, False) for i in range(rnd.randint(1, 3))]))
                step = 'add_group'
            else:
                node.ext.append(newcomp(0, False))
                step = 'add_component'
            if not tagging.check_distinct(env, m, node):
                # make all tags explicit context tags would change V1: instead undo the step
                node.ext.pop()
                continue
            steps.append(step)
        elif kind == 'enum':
            top = max(x[2] for x in list(node.enum_root) + list(node.enum_ext))
            node.enum_ext.append(('zz{}e'.format(n), top + 1, top + 1))
            steps.append('add_enum_item')
        elif kind == 'range':
            if node.rng.more is None:
                node.rng.more = (node.rng.hi + 1, node.rng.hi + rnd.choice([1, 10, 300]))
                steps.append('widen')
        elif kind == 'size':
            if node.size.more is None and node.size.hi is not None:
                node.size.more = (node.size.hi + 1, node.size.hi + 3)
                steps.append('widen')
    if not steps:
        return None
    return s2, steps


def project(env1, mod1, t1, v):
    """V1 view of a V2 value (V1 AST is a prefix of V2's)."""
    r = env1.res(mod1, t1)
    b = r.base
    k = b.kind
    if k in ('SEQUENCE', 'SET'):
        out = {}
        for c in all_comps(b):
            if c.name in v:
                out[c.name] = project(env1, r.mod, c.t, v[c.name])
        return out
    if k == 'CHOICE':
        for c in all_comps(b):
            if c.name == v[0]:
                return (v[0], project(env1, r.mod, c.t, v[1]))
        return (None, None)
    if k in ('SEQUENCE OF', 'SET OF'):
        return [project(env1, r.mod, b.elem, e) for e in v]
    if k == 'ENUMERATED':
        known = set(x[0] for x in list(b.enum_root) + list(b.enum_ext or []))
        return v if v in known else None
    return v


def uses_additions(env1, mod1, t1, v):
    r = env1.res(mod1, t1)
    b = r.base
    k = b.kind
    if k in ('SEQUENCE', 'SET') and isinstance(v, dict):
        names = set(c.name for c in all_comps(b))
        if set(v) - names:
            return True
        return any(uses_additions(env1, r.mod, c.t, v[c.name]) for c in all_comps(b) if c.name in v)
    if k == 'CHOICE' and isinstance(v, tuple):
        for c in all_comps(b):
            if c.name == v[0]:
                return uses_additions(env1, r.mod, c.t, v[1])
        return True
    if k in ('SEQUENCE OF', 'SET OF') and isinstance(v, list):
        return any(uses_additions(env1, r.mod, b.elem, e) for e in v)
    if k == 'ENUMERATED':
        return v not in set(x[0] for x in list(b.enum_root) + list(b.enum_ext or []))
    if k == 'INTEGER' and r.rng is not None and isinstance(v, int):
        return not r.rng.contains(v)
    return False


def run_shard(ctx):
    at = common.asn1tools()
    reach = common.Reach(ctx)
    st = ctx.stats
    pr = params(ctx.tier)
    rnd = ctx.rnd
    from .. import carve
    tries = 0
    done = 0
    while done < pr['pairs'] and tries < pr['pairs'] * 6 and ctx.time_left():
        tries += 1
        key = '{}/{}/{}/{}'.format(ctx.seed, ID, ctx.shard, tries)
        g1 = GeneratedSpec(key, profile(ctx.tier))
        if not g1.legal:
            continue
        ev = evolve(g1.spec, g1.rnd)
        if ev is None:
            continue
        spec2, steps = ev
        if not is_legal(spec2):
            st.inc('v2_dropped_illegal')
            continue
        env2 = Env(spec2)
        text2 = spec_text(spec2)
        done += 1
        st.inc('pairs')
        for sname in steps:
            st.inc('step:' + sname)
        vg2 = V.ValueGen(env2, g1.rnd, ctx.tier, max_len=20, big_len_p=0.0, out_of_root_p=0.3)
        vg1 = V.ValueGen(g1.env, g1.rnd, ctx.tier, max_len=20, big_len_p=0.0)
        types1 = g1.types()
        mods2 = {m.name: m for m in spec2.modules}
        cases = []
        for mod1, name, t1 in types1:
            mod2 = mods2[mod1.name]
            t2 = mod2.find(name).t
            for _ in range(pr['values']):
                cases.append(('v2_to_v1', mod1, mod2, name, t1, t2, vg2.value(mod2, t2)))
            for _ in range(max(2, pr['values'] // 2)):
                cases.append(('v1_to_v2', mod1, mod2, name, t1, t2, vg1.value(mod1, t1)))
        for codec in CODECS:
            s1 = g1.compiled(codec)
            try:
                s2 = at.compile_string(text2, codec)
            except Exception as e:
                st.inc('rejected_by_compiler')
                continue
            if isinstance(s1, Exception):
                st.inc('rejected_by_compiler')
                continue
            for direction, mod1, mod2, name, t1, t2, v in cases:
                if carve.carved(ID, ctx.active, env2, mod2, t2, v if direction == 'v2_to_v1' else None, codec) or \
                        carve.carved(ID, ctx.active, g1.env, mod1, t1, v if direction == 'v1_to_v2' else None, codec):
                    st.inc('carved_out')
                    continue
                enc_spec, dec_spec = (s2, s1) if direction == 'v2_to_v1' else (s1, s2)
                try:
                    enc = bytes(enc_spec.encode(name, v, check_constraints=False))
                    own = enc_spec.decode(name, enc)
                except Exception:
                    st.inc('skipped_not_encodable')          # C01's business
                    continue
                aenv, amod, at_ = (env2, mod2, t2) if direction == 'v2_to_v1' else (g1.env, mod1, t1)
                if V.canon(aenv, amod, at_, own) != V.canon(aenv, amod, at_, v):
                    st.inc('skipped_own_roundtrip_fails')    # C01's business
                    continue
                st.inc('evaluations')
                st.inc(direction)
                st.inc('codec:' + codec)
                case = {'v1': g1.text, 'v2': text2, 'type': name, 'codec': codec, 'direction': direction,
                        'value': core.jsonable(v), 'steps': steps, 'key': key}
                try:
                    got = core.guarded(lambda: dec_spec.decode(name, enc), 30)
                except core.CaseTimeout:
                    ctx.inconclusive.append('decode did not finish in 30 s')
                    continue
                except Exception as e:
                    ctx.violation('other_version_rejects_encoding', case,
                                  {'direction': direction, 'codec': codec, 'steps': steps, 'error': common.short_exc(e),
                                   'encoded': enc.hex()[:160]})
                    continue
                if direction == 'v2_to_v1':
                    exp = project(g1.env, mod1, t1, v)
                    ok = V.canon(g1.env, mod1, t1, got) == V.canon(g1.env, mod1, t1, exp)
                    if uses_additions(g1.env, mod1, t1, v):
                        st.inc('v2_values_using_additions')
                    d = None if ok else V.first_diff(g1.env, mod1, t1, exp, got)
                else:
                    exp = v
                    ok = V.canon(env2, mod2, t2, got) == V.canon(env2, mod2, t2, exp)
                    d = None if ok else V.first_diff(env2, mod2, t2, exp, got)
                if not ok:
                    ctx.violation('other_version_decodes_different_value', case,
                                  {'direction': direction, 'codec': codec, 'steps': steps, 'at': repr(d),
                                   'encoded': enc.hex()[:160]})
                    continue
                st.mark((codec, tuple(sorted(set(steps))), direction, common.type_sig(g1.env, mod1, t1)[:100]))
                if len(st.samples) < 3 and direction == 'v2_to_v1' and uses_additions(g1.env, mod1, t1, v):
                    st.sample({'codec': codec, 'steps': steps, 'v2_value': repr(v)[:160], 'v1_decodes': repr(got)[:160]})
    reach.close()


def coverage_extra(agg):
    return {'anchor_reach': common.reach_summary(ID, agg)}


def replay(case):
    at = common.asn1tools()
    s1 = at.compile_string(case['v1'], case['codec'])
    s2 = at.compile_string(case['v2'], case['codec'])
    v = core.unjson(case['value'])
    enc_spec, dec_spec = (s2, s1) if case['direction'] == 'v2_to_v1' else (s1, s2)
    enc = enc_spec.encode(case['type'], v)
    try:
        got = dec_spec.decode(case['type'], enc)
    except Exception as e:
        return [{'error': common.short_exc(e)}]
    # the AST is needed for the exact comparison; regenerate
    g1 = GeneratedSpec(case['key'], profile('quick'))
    if g1.text != case['v1']:
        return [{'note': 'cannot regenerate V1; decoded: ' + repr(got)[:200]}]
    for mod1, name, t1 in g1.types():
        if name == case['type']:
            if case['direction'] == 'v2_to_v1':
                ev = evolve(g1.spec, g1.rnd)
                exp = project(g1.env, mod1, t1, v)
                if V.canon(g1.env, mod1, t1, got) != V.canon(g1.env, mod1, t1, exp):
                    return [{'decoded': repr(got)[:300], 'expected': repr(exp)[:300]}]
    return []
