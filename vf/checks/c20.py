"""C20 - GSER output is well-formed value notation that determines the value.

Oracle: an independent RFC 3641 reader (vf/models/textreaders.py), type-directed by
my AST, must consume the whole text and return the value that was encoded, for
compact and indented layouts; a collision table over all texts of a run checks that
two different values never share a text.
"""

from ..asn.gen import Profile
from ..asn import values as V
from ..models import textreaders as TR
from .. import core
from . import common
from .common import GeneratedSpec
from .c02 import spice

ID = 'C20'
LEVEL = 'exploration'
RULE = ('generated modules x values (strings biased to embedded quotes, braces, commas, colons, newlines; empty bit/octet strings; nested '
        'CHOICE and lists; REALs of all magnitudes and infinities) x indent in {None,0,2,4} x numeric_enums; each text is read back by the '
        'independent reader and compared with the value; distinct by (indent, type shape, value class)')
ASSUMPTIONS = ['the reader accepts any run of spaces/newlines between tokens and around ":" (the layouts the library prints); tokens follow the RFC 3641 ABNF',
               'time types are not read (counted)', 'NaN has no GSER representation: an EncodeError for NaN is accepted']
REPORT = ['modules', 'evaluations', 'texts_read_back', 'strings_with_quote', 'empty_bit_or_octet_strings', 'reals', 'collision_checks',
          'reader_not_applicable', 'carved_out']
FLOORS = {'quick': {'evaluations': 12000, 'texts_read_back': 10000, 'strings_with_quote': 300, 'reals': 1000},
          'thorough': {'evaluations': 48000, 'texts_read_back': 40000, 'strings_with_quote': 1200, 'reals': 4000}}
TIMEOUT = {'quick': 1800, 'thorough': 5400}
INDENTS = [None, 0, 2, 4]


def shards(tier):
    return 32 if tier == 'quick' else 64


def params(tier):
    if tier == 'quick':
        return {'modules': 8, 'values': 12}
    return {'modules': 24, 'values': 16}


def profile(tier):
    p = Profile()
    p.p_big_size = 0.0
    p.prims['REAL'] = 2.5
    p.prims['UTF8String'] = 2.5
    p.prims['BIT STRING'] = 2.0
    p.prims['OCTET STRING'] = 2.0
    p.constr['CHOICE'] = 2.5
    p.constr['SEQUENCE OF'] = 2.0
    return p


def run_shard(ctx):
    at = common.asn1tools()
    reach = common.Reach(ctx)
    st = ctx.stats
    pr = params(ctx.tier)
    prof = profile(ctx.tier)
    from .. import carve
    for i in range(pr['modules']):
        if not ctx.time_left():
            break
        key = '{}/{}/{}/{}'.format(ctx.seed, ID, ctx.shard, i)
        gs = GeneratedSpec(key, prof)
        st.inc('modules')
        if not gs.legal:
            continue
        vg = V.ValueGen(gs.env, gs.rnd, ctx.tier, max_len=16, big_len_p=0.0)
        for numeric in ((False, True) if gs.has_enum and gs.rnd.random() < 0.5 else (False,)):
            spec = gs.compiled('gser', numeric)
            if isinstance(spec, Exception):
                st.inc('rejected_by_compiler')
                continue
            for mod, name, t in gs.types():
                seen = {}
                for _ in range(pr['values']):
                    v = spice(gs.env, mod, t, vg.value(mod, t), gs.rnd)
                    if carve.carved(ID, ctx.active, gs.env, mod, t, v, 'gser'):
                        st.inc('carved_out')
                        continue
                    val = V.to_numeric(gs.env, mod, t, v) if numeric else v
                    try:
                        spec.types[name].check_types(val)
                        spec.types[name].check_constraints(val)
                    except Exception:
                        st.inc('not_accepted_by_checks')
                        continue
                    indent = gs.rnd.choice(INDENTS)
                    kw = {} if indent is None else {'indent': indent}
                    st.inc('evaluations')
                    st.inc('indent:' + str(indent))
                    case = {'key': key, 'text': gs.text, 'type': name, 'numeric': numeric, 'indent': indent, 'value': core.jsonable(v)}
                    nodes = list(V.walk(gs.env, mod, t, v))
                    has_nan = any(isinstance(nv, float) and nv != nv for r, nv, p in nodes)
                    try:
                        text = bytes(spec.encode(name, val, **kw)).decode('utf-8')
                    except at.EncodeError as e:
                        if has_nan:
                            st.inc('nan_refused')
                            continue
                        ctx.violation('encode_raises_on_accepted_value', case, {'error': common.short_exc(e)})
                        continue
                    except NotImplementedError:
                        st.inc('declared_unsupported')
                        continue
                    except Exception as e:
                        ctx.violation('encode_raises_on_accepted_value', case, {'error': common.short_exc(e)})
                        continue
                    if any(isinstance(nv, str) and '"' in nv for r, nv, p in nodes):
                        st.inc('strings_with_quote')
                    if any((r.base.kind == 'BIT STRING' and nv[1] == 0) or (r.base.kind == 'OCTET STRING' and len(nv) == 0)
                           for r, nv, p in nodes if r.base.kind in ('BIT STRING', 'OCTET STRING')):
                        st.inc('empty_bit_or_octet_strings')
                    st.inc('reals', sum(1 for r, nv, p in nodes if r.base.kind == 'REAL'))
                    try:
                        mine = TR.gser_read_document(gs.env, mod, name, t, text, numeric)
                    except TR.Unreadable:
                        st.inc('reader_not_applicable')
                        continue
                    except TR.ReadError as e:
                        ctx.violation('text_not_parsable_as_rfc3641_value', case,
                                      {'indent': indent, 'error': str(e)[:200], 'gser': text[:300]})
                        continue
                    st.inc('texts_read_back')
                    if V.canon(gs.env, mod, t, mine, numeric) != V.canon(gs.env, mod, t, val, numeric):
                        d = V.first_diff(gs.env, mod, t, val, mine, numeric)
                        ctx.violation('text_reads_back_as_other_value', case, {'indent': indent, 'at': repr(d), 'gser': text[:300]})
                        continue
                    # injectivity (per type and layout)
                    st.inc('collision_checks')
                    ck = (indent, text)
                    cv = V.canon(gs.env, mod, t, val, numeric)
                    if ck in seen and seen[ck] != cv:
                        ctx.violation('two_values_share_one_text', case, {'gser': text[:300]})
                    seen[ck] = cv
                    if not common.is_trivial_type(gs.env, mod, t):
                        st.mark((indent, common.type_sig(gs.env, mod, t)[:100], common.value_sig(v)[:60], numeric))
                    if len(st.samples) < 4 and 20 < len(text) < 200:
                        st.sample({'indent': indent, 'gser': text, 'value': repr(v)[:150]})
    reach.close()


def coverage_extra(agg):
    return {'anchor_reach': common.reach_summary(ID, agg)}


def replay(case):
    at = common.asn1tools()
    gs = GeneratedSpec(case['key'], profile('quick'))
    if gs.text != case['text']:
        return [{'note': 'cannot regenerate'}]
    spec = gs.compiled('gser', case['numeric'])
    v = core.unjson(case['value'])
    for mod, name, t in gs.types():
        if name == case['type']:
            val = V.to_numeric(gs.env, mod, t, v) if case['numeric'] else v
            kw = {} if case['indent'] is None else {'indent': case['indent']}
            try:
                text = bytes(spec.encode(name, val, **kw)).decode('utf-8')
                mine = TR.gser_read_document(gs.env, mod, name, t, text, case['numeric'])
            except TR.Unreadable:
                return []
            except Exception as e:
                return [{'error': common.short_exc(e)}]
            if V.canon(gs.env, mod, t, mine, case['numeric']) != V.canon(gs.env, mod, t, val, case['numeric']):
                return [{'read_back': repr(mine)[:300]}]
    return []
