"""C06 - OER encodings are byte-exact X.696.

Oracle: vf/models/x696.py, an independent executable model of Basic OER driven by my
AST, validated at the start of every run against 56 hand-derived vectors.  The
library's octets must be the canonical form (or a sender's option the model knows:
DEFAULT-valued components present) and the library's decoder must accept the canonical
octets with the same value.
"""

from ..asn.gen import Profile
from ..asn import values as V
from ..models import x696, x690
from .. import core
from . import common
from .common import GeneratedSpec

ID = 'C06'
LEVEL = 'exploration'
PRIMS = ['BOOLEAN', 'INTEGER', 'ENUMERATED', 'NULL', 'BIT STRING', 'OCTET STRING', 'NumericString', 'PrintableString',
         'IA5String', 'VisibleString', 'BMPString', 'UniversalString', 'UTF8String', 'OBJECT IDENTIFIER', 'REAL']
RULE = ('generated modules over the OER-visible kinds (INTEGER ranges on both sides of every fixed-width threshold, with and without '
        'extension markers; ENUMERATED values < 0, 127/128, > 32767; REAL plain and WITH COMPONENTS binary32/64; fixed and variable SIZE on '
        'every string kind incl. multi-byte UTF-8; extension additions and groups in SEQUENCE/SET/CHOICE; non-AUTOMATIC modules with high tag '
        'numbers) x boundary values x numeric_enums; compared byte-for-byte with the model, and the library decodes the model octets; '
        'distinct by (type shape, value class)')
ASSUMPTIONS = ['vf/models/x696.py is X.696 Basic OER in its canonical form (gate: 56 hand-derived vectors must pass or the run is inconclusive)',
               'where BASIC-OER gives the sender an option the model knows (DEFAULT-valued component present) either form is accepted',
               'declared undecided (counted, not compared): time types, named-bit BIT STRING values with trailing zero bits, an untagged CHOICE '
               'as a CHOICE alternative']
REPORT = ['modules', 'evaluations', 'byte_comparisons', 'decode_of_model_bytes', 'model_undecided', 'declared_unsupported',
          'selftest_vectors_passed', 'not_accepted_by_checks', 'carved_out', 'sender_option_form_seen']
FLOORS = {'quick': {'byte_comparisons': 20000, 'decode_of_model_bytes': 15000},
          'thorough': {'byte_comparisons': 80000, 'decode_of_model_bytes': 60000}}
TIMEOUT = {'quick': 1800, 'thorough': 5400}


def shards(tier):
    return 32 if tier == 'quick' else 64


def params(tier):
    if tier == 'quick':
        return {'modules': 16, 'values': 10}
    return {'modules': 48, 'values': 15}


def profile(tier):
    p = Profile()
    p.only(prims=PRIMS)
    p.prims['INTEGER'] = 4.0
    p.prims['REAL'] = 2.0
    p.prims['ENUMERATED'] = 2.0
    p.real_fmt = True
    p.high_tags = True
    p.p_enum_explicit = 0.6
    p.p_range = 0.8
    p.p_size = 0.7
    p.p_alpha = 0.4
    p.p_ext = 0.4
    p.p_cons_ext = 0.25
    p.p_comp_tags = 0.35
    p.p_big_size = 0.03
    if tier == 'thorough':
        p.max_depth = 4
        p.p_big_size = 0.04
    return p


def run_shard(ctx):
    at = common.asn1tools()
    st = ctx.stats
    bad, passed = x696.selftest()
    if ctx.shard == 0:
        st.inc('selftest_vectors_passed', passed)
    if bad:
        ctx.inconclusive.append('X.696 model self-test: ' + '; '.join(bad)[:400])
        return
    reach = common.Reach(ctx)
    pr = params(ctx.tier)
    prof = profile(ctx.tier)
    from .. import carve
    for i in range(pr['modules']):
        if not ctx.time_left():
            break
        key = '{}/{}/{}/{}'.format(ctx.seed, ID, ctx.shard, i)
        gs = GeneratedSpec(key, prof)
        st.inc('modules')
        if not gs.legal:
            continue
        vg = V.ValueGen(gs.env, gs.rnd, ctx.tier, big_len_p=0.04 if ctx.tier == 'quick' else 0.02,
                        max_len=200 if ctx.tier == 'quick' else 70000)
        cases = []
        for mod, name, t in gs.types():
            for _ in range(pr['values']):
                cases.append((mod, name, t, vg.value(mod, t)))
        for codec in ('oer',):
            for numeric in ((False, True) if gs.has_enum and gs.rnd.random() < 0.4 else (False,)):
                spec = gs.compiled(codec, numeric)
                if isinstance(spec, Exception):
                    st.inc('rejected_by_compiler')
                    continue
                for mod, name, t, v in cases:
                    key2 = carve.carved(ID, ctx.active, gs.env, mod, t, v, codec)
                    if key2:
                        st.inc('carved_out')
                        st.inc('carved_out:' + key2)
                        continue
                    val = V.to_numeric(gs.env, mod, t, v) if numeric else v
                    st.inc('evaluations')
                    try:
                        spec.types[name].check_types(val)
                        spec.types[name].check_constraints(val)
                    except Exception:
                        st.inc('not_accepted_by_checks')
                        continue
                    try:
                        exp, acceptable = x696.encode_variants(gs.env, mod, t, val, numeric)
                    except x690.Undecided as e:
                        st.inc('model_undecided')
                        st.inc('model_undecided:' + str(e)[:50])
                        continue
                    case = {'key': key, 'text': gs.text, 'type': name, 'codec': codec, 'numeric': numeric, 'value': core.jsonable(v)}
                    try:
                        got = bytes(spec.encode(name, val))
                    except NotImplementedError as e:
                        st.inc('declared_unsupported')
                        st.inc('declared_unsupported:' + str(e)[:40])
                        continue
                    except Exception as e:
                        st.inc('encode_failed')       # C01's business
                        continue
                    st.inc('byte_comparisons')
                    st.inc('codec:' + codec)
                    if got != exp and got in acceptable:
                        st.inc('sender_option_form_seen')
                    if got not in acceptable:
                        ctx.violation('bytes_differ_from_x696_model', case,
                                      {'codec': codec, 'at': repr((('',), cause(gs.env, mod, t, val))), 'library': got.hex()[:200],
                                       'model': exp.hex()[:200], 'type_sig': common.type_sig(gs.env, mod, t)[:120]})
                        continue
                    st.inc('decode_of_model_bytes')
                    try:
                        back = spec.decode(name, exp)
                    except Exception as e:
                        ctx.violation('decoder_rejects_x696_encoding', case, {'codec': codec, 'error': common.short_exc(e)})
                        continue
                    if V.canon(gs.env, mod, t, back, numeric) != V.canon(gs.env, mod, t, val, numeric):
                        if got != exp:
                            ctx.violation('decoder_misreads_x696_encoding', case,
                                          {'codec': codec, 'at': repr(V.first_diff(gs.env, mod, t, val, back, numeric)), 'model': exp.hex()[:200]})
                            continue
                        st.inc('decode_differs')      # C01's business (bytes are equal)
                    if not common.is_trivial_type(gs.env, mod, t):
                        st.mark((codec, common.type_sig(gs.env, mod, t)[:120], common.value_sig(v)[:60]))
                    if len(st.samples) < 3 and 3 < len(got) < 40:
                        st.sample({'codec': codec, 'type': name, 'type_sig': common.type_sig(gs.env, mod, t)[:100],
                                   'value': repr(v)[:100], 'bytes': got.hex(), 'equals_model': True})
    reach.close()


def cause(env, mod, t, v):
    """Coarse guess of the node kinds involved (for grouping reports)."""
    kinds = set()
    try:
        for r, nv, p in V.walk(env, mod, t, v):
            kinds.add(r.base.kind)
    except Exception:
        pass
    if len(kinds) == 1:
        r = env.res(mod, t)
        return list(kinds)[0] + V.common_sig(r)
    return 'mixed'


def coverage_extra(agg):
    return {'anchor_reach': common.reach_summary(ID, agg)}


def replay(case):
    at = common.asn1tools()
    for tier in ('quick', 'thorough'):
        gs = GeneratedSpec(case['key'], profile(tier))
        if gs.text == case['text']:
            break
    else:
        return [{'error': 'cannot regenerate'}]
    spec = gs.compiled(case['codec'], case['numeric'])
    if isinstance(spec, Exception):
        return []
    v = core.unjson(case['value'])
    for mod, name, t in gs.types():
        if name == case['type']:
            val = V.to_numeric(gs.env, mod, t, v) if case['numeric'] else v
            try:
                exp, acceptable = x696.encode_variants(gs.env, mod, t, val, case['numeric'])
            except x690.Undecided:
                return []
            try:
                got = bytes(spec.encode(name, val))
            except Exception as e:
                return []
            if got not in acceptable:
                return [{'library': got.hex(), 'model': exp.hex()}]
            try:
                spec.decode(name, exp)
            except Exception as e:
                return [{'error': common.short_exc(e)}]
    return []
