"""C14 - parsing depends only on the token sequence, not on comments or white-space.

Oracles: (1) metamorphic: parse_string(relayout(X)) == parse_string(X), same
acceptance; the re-layout prints exactly the tokens of X (my own X.680 scanner,
and every layout is re-scanned and must give the identical token list before it
is used); (2) error position: for a text with one injected syntax error the
reported position must be blamed on the same token in every layout, and a layout
and its comment-free twin (comments blanked, newlines kept) must report the same
line.
"""

import os
import re

from ..asn.gen import Profile
from ..asn import lexer
from .. import core
from . import common
from .common import GeneratedSpec

ID = 'C14'
LEVEL = 'exploration'
RULE = ('fixture files of tests/files that parse + generated modules + hand-written literal probes; per text several re-layouts '
        'with separators from {space, spaces, tab, LF, CRLF, blank lines, -- c --, -- c EOL, /* c */, nested, multi-line, comments '
        'containing quotes or dashes, no separator}; per text 1-3 injected syntax errors x layouts; distinct by (text id, layout '
        'separator multiset signature) ; non-trivial: the text has >= 12 tokens')
ASSUMPTIONS = ['my scanner (vf/asn/lexer.py) defines the token sequence; layouts that do not re-scan to the same tokens are discarded',
               "'-'+digits, '&'+name, 'Module.Type' are kept glued (asn1tools lexes them as one item; not demanded here)",
               'lone CR / VT / FF are not used as line ends']
REPORT = ['texts', 'layouts', 'evaluations', 'layouts_discarded_by_rescan', 'multiword_gaps_varied', 'error_probes',
          'error_probe_layouts', 'twin_line_comparisons', 'literal_probe_layouts']
FLOORS = {'quick': {'layouts': 800, 'error_probe_layouts': 300},
          'thorough': {'layouts': 3200, 'error_probe_layouts': 1200}}
TIMEOUT = {'quick': 1800, 'thorough': 5400}

LITERAL_PROBES = [
    'M DEFINITIONS ::= BEGIN A ::= IA5String (FROM ("a--b")) B ::= INTEGER END',
    'M DEFINITIONS ::= BEGIN A ::= IA5String (FROM ("/*x" | "y*/")) B ::= INTEGER (0..5) END',
    'M DEFINITIONS ::= BEGIN A ::= SEQUENCE { a UTF8String DEFAULT "x -- y", b BOOLEAN } END',
    'M DEFINITIONS ::= BEGIN A ::= SEQUENCE { a UTF8String DEFAULT "/* not a comment */", b BOOLEAN } END',
    'M DEFINITIONS ::= BEGIN A ::= PrintableString (FROM ("-" | "--" | "a")) END',
]


def shards(tier):
    return 32 if tier == 'quick' else 96


def params(tier):
    if tier == 'quick':
        return {'generated': 5, 'fixtures': 2, 'layouts': 5, 'errors': 2, 'max_fixture_bytes': 9000}
    return {'generated': 15, 'fixtures': 3, 'layouts': 8, 'errors': 3, 'max_fixture_bytes': 13500}


def profile(tier):
    p = Profile()
    p.p_big_size = 0.0
    p.p_multi_module = 0.3
    p.p_components_of = 0.2
    return p


def fixture_files():
    d = os.path.join(core.REPO, 'tests', 'files')
    out = []
    for dp, _, fs in os.walk(d):
        for f in sorted(fs):
            if f.endswith('.asn') or f.endswith('.asn1'):
                out.append(os.path.join(dp, f))
    return sorted(out)


def parse_outcome(at, text):
    try:
        return ('ok', at.parse_string(text))
    except at.ParseError as e:
        return ('parse_error', str(e))
    except Exception as e:
        return ('foreign', common.short_exc(e))


ERR_RE = re.compile(r'at line (\d+), column (\d+)')


def err_offset(text, msg):
    m = ERR_RE.search(msg)
    if not m:
        return None
    line, col = int(m.group(1)), int(m.group(2))
    lines = text.split('\n')
    if line < 1 or line > len(lines):
        return None
    return sum(len(l) + 1 for l in lines[:line - 1]) + (col - 1), line


def blamed_token(toks, off):
    """Index k such that off lies in (end of token k-1, end of token k]: the token the error is blamed on."""
    for i, t in enumerate(toks):
        if off < t[3]:
            return i
    return len(toks)


def run_shard(ctx):
    at = common.asn1tools()
    reach = common.Reach(ctx)
    st = ctx.stats
    pr = params(ctx.tier)
    rnd = ctx.rnd
    single_mw = 'parser-multiword-keyword-separator' in ctx.active
    texts = []
    for i in range(pr['generated']):
        gs = GeneratedSpec('{}/{}/{}/{}'.format(ctx.seed, ID, ctx.shard, i), profile(ctx.tier))
        if gs.legal:
            texts.append(('gen:{}/{}'.format(ctx.shard, i), gs.text))
    fx = [f for f in fixture_files() if os.path.getsize(f) <= pr['max_fixture_bytes']]
    rnd2 = core.random.Random('{}/{}/fx/{}'.format(ctx.seed, ID, ctx.shard))
    for f in rnd2.sample(fx, min(pr['fixtures'], len(fx))):
        try:
            texts.append(('fixture:' + os.path.basename(f), open(f, encoding='utf-8', errors='replace').read()))
        except OSError:
            pass
    for j, t in enumerate(LITERAL_PROBES):
        if j % ctx.nshards == ctx.shard % len(LITERAL_PROBES) or ctx.nshards < len(LITERAL_PROBES):
            texts.append(('literal:{}'.format(j), t))
    kinds_all = [k for k in lexer.SEP_KINDS]
    for tid, text in texts:
        if not ctx.time_left():
            break
        try:
            toks = lexer.tokenize(text)
        except lexer.LexError:
            st.inc('text_not_scannable_by_my_lexer')
            continue
        base = parse_outcome(at, text)
        if base[0] != 'ok':
            st.inc('base_text_rejected:' + base[0])
            continue
        st.inc('texts')
        if any(('--' in t[1] or '/*' in t[1] or '*/' in t[1]) for t in toks if t[0] == 'cstring'):
            st.inc('texts_with_comment_markers_in_literals')
        for l in range(pr['layouts']):
            mix = rnd.choice([kinds_all, ['space', 'lf', 'tab', 'crlf', 'spaces', 'lflf', 'none'],
                              ['space', 'block', 'block_nested', 'block_nested_multiline', 'block_multiline', 'block_with_dashes'],
                              ['space', 'line_comment_closed', 'line_comment_eol', 'comment_with_quote', 'lf']])
            r = lexer.relayout(text, rnd, mix, multiword_single_space=single_mw, toks=toks)
            if r is None:
                st.inc('layouts_discarded_by_rescan')
                continue
            new, used = r
            st.inc('layouts')
            st.inc('evaluations')
            if tid.startswith('literal'):
                st.inc('literal_probe_layouts')
            for k, v in used.items():
                st.inc(('sep:' + k) if k != 'multiword_gaps_varied' else k, v)
            got = parse_outcome(at, new)
            case = {'text': text, 'layout': new, 'id': tid}
            if got[0] != 'ok':
                ctx.violation('relayout_rejected', case, {'id': tid, 'outcome': got[0], 'message': got[1][:300]})
            elif got[1] != base[1]:
                ctx.violation('relayout_changes_parse_result', case, {'id': tid, 'diff': first_diff(base[1], got[1])})
            if len(toks) >= 12:
                st.mark((tid, tuple(sorted(used.items()))))
            if len(st.samples) < 2 and len(new) < 600:
                st.sample({'id': tid, 'layout': new[:400], 'equal_to_original_parse': got == base})
        # ---- error position probes
        for e in range(pr['errors']):
            if len(toks) < 8:
                break
            j = rnd.randrange(3, len(toks) - 1)
            bad = rnd.choice(['%%%', '::=', '}', ')', 'END', ',,'])
            pieces = [text[:toks[j][2]], bad, text[toks[j][3]:]]
            xerr = ''.join(pieces)
            try:
                etoks = lexer.tokenize(xerr)
            except lexer.LexError:
                continue
            o0 = parse_outcome(at, xerr)
            if o0[0] != 'parse_error':
                continue
            st.inc('error_probes')
            loc0 = err_offset(xerr, o0[1])
            if loc0 is None:
                ctx.violation('parse_error_without_position', {'text': xerr}, {'message': o0[1][:200]})
                continue
            k0 = blamed_token(etoks, loc0[0])
            for l in range(3):
                mix = rnd.choice([['space', 'lf', 'lflf', 'crlf', 'spaces'],
                                  ['space', 'block_multiline', 'lf', 'block'],
                                  ['space', 'block_nested_multiline', 'lf', 'block_nested', 'block_multiline'],
                                  ['space', 'line_comment_eol', 'lf', 'line_comment_closed']])
                r = lexer.relayout(xerr, rnd, mix, multiword_single_space=True, toks=etoks)
                if r is None:
                    st.inc('layouts_discarded_by_rescan')
                    continue
                new, used = r
                st.inc('error_probe_layouts')
                st.inc('evaluations')
                o1 = parse_outcome(at, new)
                case = {'text': xerr, 'layout': new, 'id': tid}
                if o1[0] != 'parse_error':
                    ctx.violation('erroneous_text_accepted_after_relayout' if o1[0] == 'ok' else 'foreign_exception_from_parser',
                                  case, {'outcome': o1[0], 'detail': repr(o1[1])[:200]})
                    continue
                loc1 = err_offset(new, o1[1])
                ntoks = lexer.tokenize(new)
                if loc1 is None:
                    ctx.violation('parse_error_without_position', case, {'message': o1[1][:200]})
                    continue
                k1 = blamed_token(ntoks, loc1[0])
                # the blame must stay on the same place of the token sequence
                # pyparsing's choice among adjacent tokens depends on which alternatives it tried
                # (e.g. "2..END" vs "2 .. END"); that is not the property's business: accept +-2 tokens.
                if abs(k1 - k0) > 2:
                    ctx.violation('error_blamed_on_different_token_after_relayout', case,
                                  {'original': o0[1][:160], 'relayout': o1[1][:160], 'token_original': k0, 'token_relayout': k1,
                                   'blamed_original': etoks[k0][1] if k0 < len(etoks) else '<end>',
                                   'blamed_relayout': ntoks[k1][1] if k1 < len(ntoks) else '<end>'})
                # comment-free twin must report the same line
                twin = lexer.blank_comments(new)
                o2 = parse_outcome(at, twin)
                st.inc('twin_line_comparisons')
                if o2[0] == 'parse_error':
                    loc2 = err_offset(twin, o2[1])
                    if loc2 is None or loc2[1] != loc1[1]:
                        ctx.violation('error_line_differs_from_comment_free_twin', case,
                                      {'with_comments': o1[1][:160], 'comment_free': o2[1][:160]})
                else:
                    ctx.violation('comment_free_twin_parses_differently', case, {'outcome': o2[0]})
    reach.close()


def first_diff(a, b, path='d'):
    if type(a) is not type(b):
        return '{}: {!r} vs {!r}'.format(path, a, b)[:300]
    if isinstance(a, dict):
        for k in sorted(set(a) | set(b), key=repr):
            if k not in a or k not in b:
                return '{}[{!r}] only on one side'.format(path, k)
            if a[k] != b[k]:
                return first_diff(a[k], b[k], '{}[{!r}]'.format(path, k))
    if isinstance(a, (list, tuple)):
        if len(a) != len(b):
            return '{}: length {} vs {}'.format(path, len(a), len(b))
        for i, (x, y) in enumerate(zip(a, b)):
            if x != y:
                return first_diff(x, y, '{}[{}]'.format(path, i))
    return '{}: {!r} vs {!r}'.format(path, a, b)[:300]


def coverage_extra(agg):
    return {'anchor_reach': common.reach_summary(ID, agg)}


def replay(case):
    at = common.asn1tools()
    a = parse_outcome(at, case['text'])
    b = parse_outcome(at, case['layout'])
    if a[0] == 'ok':
        return [] if a == b else [{'original': a[0], 'layout': b[0], 'detail': repr(b[1])[:300]}]
    # error probe
    if b[0] != 'parse_error':
        return [{'layout_outcome': b[0]}]
    k0 = blamed_token(lexer.tokenize(case['text']), err_offset(case['text'], a[1])[0])
    k1 = blamed_token(lexer.tokenize(case['layout']), err_offset(case['layout'], b[1])[0])
    return [] if k0 == k1 else [{'token_original': k0, 'token_relayout': k1}]
