"""C17 - the compile cache is transparent.

(1) histories: sequences of compile_files calls over one cache directory varying
    file contents, file lists, codec, numeric_enums; each call's Specification
    must behave like the uncached compile with the same arguments;
(2) crash points (fault enumeration): a populating child process is killed by
    `strace -e inject=<syscall>:signal=KILL:when=k` at EVERY k of every write-side
    syscall kind the population issues (pwrite64, fdatasync, ftruncate, unlink,
    mkdir); a later reader must get the uncached behaviour or an error;
(3) damage: truncation and bit flips of the cache files.
"""

import os
import sys
import shutil
import tempfile
import subprocess

from ..asn.gen import Profile
from ..asn import values as V
from .. import core
from . import common
from .common import GeneratedSpec
from .c18 import corrupt_value, outcome

ID = 'C17'
LEVEL = 'fault_enumeration'
RULE = ('histories of 2-8 compile_files calls over a shared cache directory (3 spec variants with identical type names, 1-2 files, '
        '8 codecs, numeric_enums on/off) compared call by call with cache_dir=None; option histories of 3-10 calls over one file '
        'varying any_defined_by_choices (8 tables incl. same selectors mapped to other types), encoding and numeric_enums; crash points: every k-th occurrence of each '
        'write-side syscall kind of a cache population (first population, second key into an existing cache, re-population after '
        'a file change) killed with SIGKILL on syscall entry, followed by a reader; damage: truncation at 4 KiB boundaries and '
        'random offsets, bit flips; distinct by (scenario, syscall kind, k) / (history signature) / (damage kind, offset bucket)')
ASSUMPTIONS = ['a SIGKILLed writer keeps its completed writes in the page cache: what is enumerated is every prefix of the '
               'writer syscall sequence, not torn sectors or power loss',
               'behaviour = bytes/values/errors of a probe battery derived from my AST',
               'behaviour is compared on a probe battery, not object identity']
REPORT = ['histories', 'history_calls', 'option_history_calls', 'crash_points_enumerated', 'crash_points_total', 'crash_outcome:equal',
          'crash_outcome:error', 'damage_cases', 'damage_outcome:equal', 'damage_outcome:error', 'evaluations']
FLOORS = {'quick': {'history_calls': 150, 'option_history_calls': 150, 'crash_points_enumerated': 150, 'damage_cases': 100},
          'thorough': {'history_calls': 600, 'option_history_calls': 600, 'crash_points_enumerated': 300, 'damage_cases': 400}}
TIMEOUT = {'quick': 1800, 'thorough': 5400}
KINDS = ['pwrite64', 'fdatasync', 'ftruncate', 'unlink', 'mkdir']
CODECS = ['ber', 'der', 'per', 'uper', 'oer', 'jer', 'xer', 'gser']
SCENARIOS = ['first_population', 'second_key', 'repopulate_after_change']


def shards(tier):
    return 32 if tier == 'quick' else 64


# ---- option histories: any_defined_by_choices and encoding (not produced by my generator: a fixed module)
OPT_TEXT = '''Opt DEFINITIONS ::= BEGIN
Fie ::= SEQUENCE { bar INTEGER, fum ANY DEFINED BY bar }
Fum ::= SEQUENCE { k INTEGER, w ANY DEFINED BY k, note UTF8String DEFAULT "\u00e5\u00e4" }
END
'''
LOC1, LOC2 = ('Opt', 'Fie', 'fum'), ('Opt', 'Fum', 'w')
OPT_CHOICES = [None,
               {LOC1: {0: 'NULL', 1: 'INTEGER'}},
               {LOC1: {0: 'NULL', 1: 'BOOLEAN'}},
               {LOC1: {0: 'INTEGER', 1: 'NULL'}},
               {LOC1: {0: 'NULL'}},
               {LOC1: {0: 'NULL', 1: 'INTEGER'}, LOC2: {0: 'BOOLEAN', 1: 'INTEGER'}},
               {LOC1: {0: 'NULL', 1: 'INTEGER'}, LOC2: {0: 'INTEGER', 1: 'BOOLEAN'}},
               {LOC2: {0: 'NULL', 1: 'INTEGER'}}]
OPT_PROBES = ([('Fie', {'bar': b, 'fum': f}) for b in (0, 1, 2) for f in (None, 5, True, b'\x05\x00', b'\x02\x01\x07')] +
              [('Fum', {'k': k, 'w': f}) for k in (0, 1) for f in (None, 5, True, b'\x05\x00')] +
              [('Fum', {'k': 0, 'w': None, 'note': 'x'})])
OPT_WIRE = [('Fie', bytes.fromhex(h)) for h in ('30050201000500', '3006020101020105', '30060201010101ff', '30060201000201 05'.replace(' ', ''))] + \
           [('Fum', bytes.fromhex(h)) for h in ('30050201000500', '30060201000101ff', '3006020101020105')]


def opt_behaviour(spec):
    res = []
    for name, v in OPT_PROBES:
        res.append(outcome(lambda: bytes(spec.encode(name, v))))
    for name, data in OPT_WIRE:
        res.append(outcome(lambda: spec.decode(name, data)))
    return res


def profile():
    p = Profile()
    p.p_big_size = 0.0
    p.p_multi_module = 0.0
    p.n_types = (4, 4)
    p.hyphen_names = False
    return p


def make_variants(seedkey):
    """Three specifications with the same module and type names but different contents."""
    out = []
    i = 0
    while len(out) < 3 and i < 40:
        gs = GeneratedSpec('{}/v{}'.format(seedkey, i), profile())
        i += 1
        if gs.legal and not any(isinstance(gs.compiled(c), Exception) for c in CODECS):
            names = [n for _, n, _ in gs.types()]
            if names == ['T0', 'T1', 'T2', 'T3']:
                out.append(gs)
    return out


def probes_for(gs, rnd):
    vg = V.ValueGen(gs.env, rnd, 'quick', max_len=16, big_len_p=0.0)
    out = []
    for mod, name, t in gs.types():
        for _ in range(3):
            v = vg.value(mod, t)
            out.append((name, v))
            out.append((name, corrupt_value(rnd, v)))
    return out


def behaviour(spec, probes):
    res = []
    for name, v in probes:
        enc = outcome(lambda: bytes(spec.encode(name, v, check_constraints=True)))
        res.append(enc)
        if enc[0] == 'value':
            data = eval(enc[1])
            res.append(outcome(lambda: spec.decode(name, data)))
    return res


def write_files(d, gs, split):
    text = gs.text
    if split:
        cut = text.index('\n', len(text) // 2) + 1
        parts = [text[:cut], text[cut:]]
    else:
        parts = [text]
    paths = []
    for i, ptxt in enumerate(parts):
        p = os.path.join(d, 'f{}.asn'.format(i))
        with open(p, 'w') as f:
            f.write(ptxt)
        paths.append(p)
    return paths


CHILD = r'''
import sys
sys.path.insert(0, sys.argv[1])
import asn1tools
asn1tools.compile_files(sys.argv[5:], sys.argv[3], cache_dir=sys.argv[2], numeric_enums=(sys.argv[4] == '1'))
'''


def run_child(repo, cache, codec, numeric, files, kind=None, k=None, count_file=None):
    cmd = [sys.executable, '-c', CHILD, repo, cache, codec, '1' if numeric else '0'] + files
    if kind is not None:
        cmd = ['strace', '-f', '-o', '/dev/null', '-e', 'trace=' + kind,
               '-e', 'inject={}:signal=KILL:when={}'.format(kind, k)] + cmd
    elif count_file is not None:
        cmd = ['strace', '-f', '-o', count_file, '-e', 'trace=' + ','.join(KINDS)] + cmd
    env = dict(os.environ)
    p = subprocess.run(cmd, env=env, stdout=subprocess.PIPE, stderr=subprocess.PIPE, timeout=120)
    return p.returncode


def count_syscalls(path):
    counts = {k: 0 for k in KINDS}
    for ln in open(path):
        parts = ln.split(None, 1)
        if len(parts) < 2:
            continue
        name = parts[1].split('(')[0]
        if name in counts:
            counts[name] += 1
    return counts


def read_back(at, cache, codec, numeric, files, probes, expected):
    """-> 'equal' | 'error' | 'different' (+detail)"""
    try:
        spec = at.compile_files(files, codec, cache_dir=cache, numeric_enums=numeric)
    except Exception as e:
        return 'error', common.short_exc(e)
    try:
        got = behaviour(spec, probes)
    except Exception as e:
        return 'different', 'behaviour raised ' + common.short_exc(e)
    if got == expected:
        return 'equal', None
    for g, e in zip(got, expected):
        if g != e:
            return 'different', 'cached {} / uncached {}'.format(repr(g)[:200], repr(e)[:200])
    return 'different', 'length'


def prepare_scenario(at, scen, base, variants, work):
    """Build the starting cache directory of a scenario; -> (cache template dir, codec, numeric, files of the killed population)."""
    tmpl = os.path.join(work, 'tmpl-' + scen)
    os.makedirs(tmpl)
    cache = os.path.join(tmpl, 'cache')
    fa = write_files(tmpl, variants[0], False)
    if scen == 'first_population':
        return tmpl, 'uper', False, fa
    if scen == 'second_key':
        at.compile_files(fa, 'ber', cache_dir=cache)
        return tmpl, 'uper', True, fa
    # repopulate_after_change: cache holds variant A under f0.asn; the file now holds variant B
    at.compile_files(fa, 'uper', cache_dir=cache)
    fb = write_files(tmpl, variants[1], False)
    return tmpl, 'uper', False, fb


def run_shard(ctx):
    at = common.asn1tools()
    st = ctx.stats
    rnd = ctx.rnd
    repo = core.REPO
    work = tempfile.mkdtemp(prefix='vf-c17-')
    try:
        variants = make_variants('{}/{}'.format(ctx.seed, ID))
        if len(variants) < 3:
            ctx.inconclusive.append('could not generate three spec variants')
            return
        probes = [probes_for(gs, core.random.Random('{}/probes/{}'.format(ctx.seed, i))) for i, gs in enumerate(variants)]
        # ---------------- (1) histories
        nh = 2 if ctx.tier == 'quick' else 12
        for h in range(nh):
            hd = os.path.join(work, 'h{}'.format(h))
            os.makedirs(hd)
            cache = os.path.join(hd, 'cache')
            sig = []
            for step in range(rnd.randint(2, 8)):
                vi = rnd.randrange(3)
                codec = rnd.choice(CODECS)
                numeric = rnd.random() < 0.5
                split = rnd.random() < 0.4
                files = write_files(hd, variants[vi], split)
                if not split and os.path.exists(os.path.join(hd, 'f1.asn')):
                    os.remove(os.path.join(hd, 'f1.asn'))
                sig.append('{}{}{}{}'.format('ABC'[vi], codec, '#' if numeric else '', '/2' if split else ''))
                st.inc('history_calls')
                st.inc('evaluations')
                try:
                    unc = at.compile_files(files, codec, numeric_enums=numeric)
                except Exception as e:
                    st.inc('rejected_by_compiler')
                    continue
                exp = behaviour(unc, probes[vi])
                res, detail = read_back(at, cache, codec, numeric, files, probes[vi], exp)
                st.inc('history_outcome:' + res)
                if res != 'equal':
                    ctx.violation('cached_compile_differs_from_uncached' if res == 'different' else 'cached_compile_raises_on_intact_cache',
                                  {'history': sig, 'texts': [v.text for v in variants]},
                                  {'history': ' > '.join(sig), 'detail': detail})
                st.mark(('hist', tuple(sig[-2:]), codec, numeric))
            st.inc('histories')
            if len(st.samples) < 1:
                st.sample({'history': sig, 'all_calls_equal_to_uncached': True})
        # ---------------- (1b) option histories: any_defined_by_choices x encoding x numeric_enums on one cache
        for h in range(2 if ctx.tier == 'quick' else 10):
            hd = os.path.join(work, 'o{}'.format(h))
            os.makedirs(hd)
            cache = os.path.join(hd, 'cache')
            path = os.path.join(hd, 'opt.asn')
            with open(path, 'w', encoding='utf-8') as f:
                f.write(OPT_TEXT)
            sig = []
            for step in range(rnd.randint(3, 10)):
                ci = rnd.randrange(len(OPT_CHOICES))
                kw = {'any_defined_by_choices': OPT_CHOICES[ci], 'encoding': rnd.choice(['utf-8', 'latin-1']),
                      'numeric_enums': rnd.random() < 0.3}
                codec = rnd.choice(['ber', 'der', 'ber', 'der', 'per', 'jer'])
                sig.append('{}/choices{}/{}{}'.format(codec, ci, kw['encoding'], '#' if kw['numeric_enums'] else ''))
                st.inc('option_history_calls')
                st.inc('evaluations')
                try:
                    unc = at.compile_files(path, codec, **kw)
                except Exception as e:
                    st.inc('rejected_by_compiler')
                    continue
                exp = opt_behaviour(unc)
                try:
                    got = opt_behaviour(at.compile_files(path, codec, cache_dir=cache, **kw))
                except Exception as e:
                    ctx.violation('cached_compile_raises_on_intact_cache', {'history': sig, 'texts': [OPT_TEXT]},
                                  {'history': ' > '.join(sig), 'detail': common.short_exc(e)})
                    continue
                if got != exp:
                    d = [(g, e) for g, e in zip(got, exp) if g != e][:1]
                    ctx.violation('cached_compile_differs_from_uncached', {'history': sig, 'texts': [OPT_TEXT]},
                                  {'history': ' > '.join(sig), 'detail': 'cached {} / uncached {}'.format(repr(d[0][0])[:200], repr(d[0][1])[:200])})
                    continue
                st.inc('option_history_outcome:equal')
                st.mark(('opt', tuple(sig[-2:])))
        # ---------------- (2) crash points, sharded
        scens = SCENARIOS[:2] if ctx.tier == 'quick' else SCENARIOS
        points = []
        for scen in scens:
            tmpl, codec, numeric, files = prepare_scenario(at, scen, work, variants, work)
            # clean traced run to count the syscalls of this population
            cdir = os.path.join(work, 'count-' + scen)
            shutil.copytree(tmpl, cdir)
            cfiles = [os.path.join(cdir, os.path.basename(f)) for f in files]
            tracef = os.path.join(work, 'trace-' + scen)
            rc = run_child(repo, os.path.join(cdir, 'cache'), codec, numeric, cfiles, count_file=tracef)
            if rc != 0:
                ctx.inconclusive.append('clean traced population failed rc={}'.format(rc))
                continue
            counts = count_syscalls(tracef)
            for kind in KINDS:
                st.inc('syscalls_in_clean_run:{}:{}'.format(scen, kind), 0)
                for k in range(1, counts[kind] + 1):
                    points.append((scen, kind, k, counts[kind]))
            if ctx.shard == 0:
                for kind in KINDS:
                    st.inc('syscalls_in_clean_run:{}:{}'.format(scen, kind), counts[kind])
                st.inc('crash_points_total', sum(counts.values()))
        mine = [p for i, p in enumerate(points) if i % ctx.nshards == ctx.shard]
        if ctx.tier == 'quick':
            pass
        expected_cache = {}
        for scen, kind, k, tot in mine:
            if not ctx.time_left():
                break
            tmpl = os.path.join(work, 'tmpl-' + scen)
            rd = os.path.join(work, 'run-{}-{}-{}'.format(scen, kind, k))
            shutil.copytree(tmpl, rd)
            _, codec, numeric, files0 = {'first_population': (None, 'uper', False, None),
                                         'second_key': (None, 'uper', True, None),
                                         'repopulate_after_change': (None, 'uper', False, None)}[scen]
            files = [os.path.join(rd, 'f0.asn')]
            vi = 1 if scen == 'repopulate_after_change' else 0
            cache = os.path.join(rd, 'cache')
            rc = run_child(repo, cache, codec, numeric, files, kind=kind, k=k)
            st.inc('crash_points_enumerated')
            st.inc('evaluations')
            st.inc('child_exit:{}'.format('killed' if rc in (-9, 137) else rc))
            ek = (vi, codec, numeric)
            if ek not in expected_cache:
                expected_cache[ek] = behaviour(at.compile_files(files, codec, numeric_enums=numeric), probes[vi])
            res, detail = read_back(at, cache, codec, numeric, files, probes[vi], expected_cache[ek])
            st.inc('crash_outcome:' + res)
            st.mark(('crash', scen, kind, k))
            if res == 'different':
                ctx.violation('wrong_codec_after_killed_population',
                              {'scenario': scen, 'syscall': kind, 'k': k, 'texts': [v.text for v in variants]},
                              {'scenario': scen, 'syscall': kind, 'when': k, 'of': tot, 'detail': detail})
            elif res == 'error':
                st.inc('crash_error:' + (detail or '')[:40])
            # the other, older key must still be served correctly (second_key scenario)
            if scen == 'second_key':
                ek2 = (0, 'ber', False)
                if ek2 not in expected_cache:
                    expected_cache[ek2] = behaviour(at.compile_files(files, 'ber'), probes[0])
                res2, detail2 = read_back(at, cache, 'ber', False, files, probes[0], expected_cache[ek2])
                st.inc('crash_older_key_outcome:' + res2)
                if res2 == 'different':
                    ctx.violation('older_cache_entry_wrong_after_killed_population',
                                  {'scenario': scen, 'syscall': kind, 'k': k, 'texts': [v.text for v in variants]},
                                  {'syscall': kind, 'when': k, 'detail': detail2})
            if len(st.samples) < 3:
                st.sample({'scenario': scen, 'killed_at': '{} #{} of {}'.format(kind, k, tot), 'child_rc': rc,
                           'reader_outcome': res})
            shutil.rmtree(rd, ignore_errors=True)
        # ---------------- (3) damage
        nd = 6 if ctx.tier == 'quick' else 40
        dmg_tmpl = os.path.join(work, 'dmg')
        os.makedirs(dmg_tmpl)
        files = write_files(dmg_tmpl, variants[2], False)
        cache = os.path.join(dmg_tmpl, 'cache')
        at.compile_files(files, 'uper', cache_dir=cache)
        at.compile_files(files, 'ber', cache_dir=cache, numeric_enums=True)
        exp = behaviour(at.compile_files(files, 'uper'), probes[2])
        import gc
        gc.collect()
        for dno in range(nd):
            rd = os.path.join(work, 'dmg-{}'.format(dno))
            shutil.copytree(dmg_tmpl, rd)
            cfiles = sorted(os.path.join(dp, f) for dp, _, fs in os.walk(os.path.join(rd, 'cache')) for f in fs)
            target = rnd.choice(cfiles)
            size = os.path.getsize(target)
            kind = rnd.choice(['truncate_4k', 'truncate_random', 'bitflip', 'burst', 'zero_page'])
            if 'bitflip-in-pickled-value' in ctx.active and kind in ('bitflip', 'burst'):
                st.inc('carved_out')
                kind = rnd.choice(['truncate_4k', 'truncate_random', 'zero_page'])
            with open(target, 'r+b') as f:
                if kind == 'truncate_4k':
                    off = 4096 * rnd.randrange(max(1, size // 4096 + 1))
                    f.truncate(off)
                elif kind == 'truncate_random':
                    off = rnd.randrange(size + 1)
                    f.truncate(off)
                elif kind == 'bitflip':
                    off = rnd.randrange(max(1, size))
                    f.seek(off)
                    b = f.read(1)
                    f.seek(off)
                    f.write(bytes([(b[0] if b else 0) ^ (1 << rnd.randrange(8))]))
                elif kind == 'burst':
                    off = rnd.randrange(max(1, size))
                    f.seek(off)
                    f.write(bytes(rnd.getrandbits(8) for _ in range(rnd.choice([2, 8, 64]))))
                else:
                    off = 4096 * rnd.randrange(max(1, size // 4096))
                    f.seek(off)
                    f.write(b'\x00' * 4096)
            st.inc('damage_cases')
            st.inc('evaluations')
            st.inc('damage_kind:' + kind)
            res, detail = read_back(at, os.path.join(rd, 'cache'), 'uper', False,
                                    [os.path.join(rd, 'f0.asn')], probes[2], exp)
            st.inc('damage_outcome:' + res)
            st.mark(('damage', kind, os.path.basename(target), off // 512))
            if res == 'different':
                ctx.violation('wrong_codec_from_damaged_cache',
                              {'damage': kind, 'file': os.path.basename(target), 'offset': off,
                               'texts': [v.text for v in variants]},
                              {'damage': kind, 'file': os.path.basename(target), 'offset': off, 'detail': detail})
            shutil.rmtree(rd, ignore_errors=True)
    finally:
        shutil.rmtree(work, ignore_errors=True)


def replay(case):
    return []
