"""C01 - binary codecs round-trip every value of every compilable type.

Oracle: decode(encode(v)) == v under the abstract equality of vf.asn.values.canon
(computed from MY AST, not from anything asn1tools parsed); the decoded value is
accepted by the encoder; canonical codecs reproduce identical bytes.
"""

from ..asn.gen import Profile
from ..asn import values as V
from .. import core
from . import common
from .common import GeneratedSpec, BINARY

ID = 'C01'
LEVEL = 'exploration'
RULE = ('random X.680-legal modules from vf.asn.gen (all builtin kinds, constraints incl. extensible, '
        'OPTIONAL/DEFAULT, extension additions and groups, recursion, all tag defaults) x boundary-biased '
        'values x {ber,der,per,uper,oer} x numeric_enums; a case is distinct by (type shape signature, '
        'value class signature, codec, numeric) and non-trivial when the type is not a bare BOOLEAN/NULL '
        'and the encoding is non-empty')
ASSUMPTIONS = ['the abstract equality and DEFAULT values come from my own AST (vf/asn)',
               'modules asn1tools refuses to compile are counted (rejected_by_compiler) and skipped',
               'NotImplementedError raised by asn1tools is an explicit declared-unsupported (counted)']
REPORT = ['modules', 'rejected_by_compiler', 'values', 'evaluations', 'declared_unsupported',
          'not_accepted_by_checks', 'carved_out']
FLOORS = {'quick': {'evaluations': 20000, 'modules': 100},
          'thorough': {'evaluations': 80000, 'modules': 400}}
TIMEOUT = {'quick': 1500, 'thorough': 5400}
CANONICAL = {'der', 'per', 'uper', 'oer'}


def shards(tier):
    return 32 if tier == 'quick' else 64


def params(tier):
    if tier == 'quick':
        return {'modules': 8, 'values': 14}
    return {'modules': 24, 'values': 21}


def profile(tier):
    import os
    p = Profile()
    if os.environ.get('VF_PROFILE') == 'flat':     # development aid
        p.p_constructed_top = 0.0
        p.n_types = (8, 12)
        p.p_type_tag = 0.0
    if tier == 'thorough':
        p.max_depth = 4
        p.high_tags = True
        p.p_root2 = 0.05
    return p


def carved(ctx, gs, mod, t, v, codec):
    """Carve-outs of known findings that still reproduce (see KNOWN_FINDINGS)."""
    from .. import carve
    return carve.carved('C01', ctx.active, gs.env, mod, t, v, codec)


def check_case(at, gs, mod, name, t, v, codec, numeric):
    """-> None or (kind, detail).  Also returns info dict for stats."""
    spec = gs.compiled(codec, numeric)
    env = gs.env
    val = V.to_numeric(env, mod, t, v) if numeric else v
    info = {}
    ct = spec.types[name]
    try:
        ct.check_types(val)
        ct.check_constraints(val)
    except at.Error as e:
        info['not_accepted'] = common.short_exc(e)
        return None, info
    except Exception as e:
        info['not_accepted'] = common.short_exc(e)
        return None, info
    try:
        enc = spec.encode(name, val, check_constraints=True)
    except NotImplementedError as e:
        info['unsupported'] = str(e)[:80]
        return None, info
    except at.Error as e:
        return ('encode_error_on_accepted_value', {'error': common.short_exc(e)}), info
    except Exception as e:
        return ('foreign_exception_in_encode', {'error': common.short_exc(e)}), info
    info['len'] = len(enc)
    try:
        dec = spec.decode(name, enc)
    except NotImplementedError as e:
        info['unsupported'] = str(e)[:80]
        return None, info
    except Exception as e:
        return ('decode_raises_on_own_encoding', {'error': common.short_exc(e), 'encoded': enc.hex()[:400]}), info
    if V.canon(env, mod, t, dec, numeric) != V.canon(env, mod, t, val, numeric):
        d = V.first_diff(env, mod, t, val, dec, numeric)
        return ('roundtrip_mismatch', {'at': repr(d), 'encoded': enc.hex()[:200], 'decoded': repr(dec)[:300]}), info
    try:
        enc2 = spec.encode(name, dec, check_constraints=True)
    except NotImplementedError as e:
        info['unsupported'] = str(e)[:80]
        return None, info
    except Exception as e:
        return ('decoded_value_not_accepted_by_encoder', {'error': common.short_exc(e), 'decoded': repr(dec)[:600]}), info
    if codec in CANONICAL and enc2 != enc:
        return ('reencoding_differs', {'first': enc.hex()[:400], 'second': enc2.hex()[:400]}), info
    return None, info


def run_shard(ctx):
    at = common.asn1tools()
    reach = common.Reach(ctx)
    st = ctx.stats
    pr = params(ctx.tier)
    prof = profile(ctx.tier)
    for i in range(pr['modules']):
        if not ctx.time_left():
            break
        key = '{}/{}/{}/{}'.format(ctx.seed, ID, ctx.shard, i)
        gs = GeneratedSpec(key, prof)
        st.inc('modules')
        if not gs.legal:
            st.inc('generator_illegal_module_dropped')
            continue
        for f, n in gs.features.items():
            st.inc('feature:' + f, n)
        vg = V.ValueGen(gs.env, gs.rnd, ctx.tier)
        cases = []
        for mod, name, t in gs.types():
            for _ in range(pr['values']):
                try:
                    cases.append((mod, name, t, vg.value(mod, t)))
                except KeyError:
                    break
        for codec in BINARY:
            for numeric in ((False, True) if gs.has_enum else (False,)):
                spec = gs.compiled(codec, numeric)
                if isinstance(spec, Exception):
                    st.inc('rejected_by_compiler')
                    st.inc('rejected_by_compiler:{}:{}'.format(codec, type(spec).__name__))
                    continue
                for mod, name, t, v in cases:
                    if carved(ctx, gs, mod, t, v, codec):
                        st.inc('carved_out')
                        continue
                    case = {'key': key, 'type': name, 'codec': codec, 'numeric': numeric,
                            'value': core.jsonable(v)}
                    try:
                        res, info = core.guarded(lambda: check_case(at, gs, mod, name, t, v, codec, numeric), 30)
                    except core.CaseTimeout:
                        # logical verdict: a budget of interpreter line events that grows with the size of the value
                        outcome, steps = core.decide_hang(
                            lambda: check_case(at, gs, mod, name, t, v, codec, numeric),
                            3000000 + 400 * len(repr(v)))
                        if outcome == 'budget':
                            ctx.violation('no_termination_within_step_budget', case, {'steps': steps, 'value_repr_length': len(repr(v))})
                        else:
                            st.inc('slow_case_finished_within_step_budget')     # the wall-clock trigger was load
                        continue
                    st.inc('evaluations')
                    st.inc('codec:' + codec)
                    if numeric:
                        st.inc('numeric_enums')
                    if 'not_accepted' in info:
                        st.inc('not_accepted_by_checks')
                        continue
                    if 'unsupported' in info:
                        st.inc('declared_unsupported')
                        st.inc('declared_unsupported:{}:{}'.format(codec, info['unsupported'][:50]))
                        continue
                    if res is not None:
                        ctx.violation(res[0], dict(case, text=gs.text), res[1])
                        continue
                    st.inc('roundtrips_ok')
                    if info.get('len', 0) > 0 and not common.is_trivial_type(gs.env, mod, t):
                        st.mark((common.type_sig(gs.env, mod, t), common.value_sig(v), codec, numeric))
                    ln = info.get('len', 0)
                    for edge in (127, 128, 16383, 16384, 65535, 65536):
                        if ln >= edge:
                            st.inc('encoded_len>={}'.format(edge))
                    if len(st.samples) < 3 and ln > 3:
                        st.sample({'type': name, 'codec': codec, 'numeric': numeric, 'value': repr(v)[:200],
                                   'type_sig': common.type_sig(gs.env, mod, t)[:200], 'encoded_len': ln})
        for mod, name, t, v in cases[:40]:
            for r, nv, path in V.walk(gs.env, mod, t, v):
                st.inc('valuekind:' + r.base.kind)
    reach.close()


def coverage_extra(agg):
    return {'anchor_reach': common.reach_summary(ID, agg)}


def replay(case):
    at = common.asn1tools()
    gs = GeneratedSpec(case['key'], profile('thorough' if False else 'quick'))
    if 'text' in case and gs.text != case['text']:
        gs = GeneratedSpec(case['key'], profile('thorough'))
        if gs.text != case['text']:
            return [{'error': 'cannot regenerate the specification from its key'}]
    v = core.unjson(case['value'])
    for mod, name, t in gs.types():
        if name == case['type']:
            spec = gs.compiled(case['codec'], case['numeric'])
            if isinstance(spec, Exception):
                return []
            res, info = check_case(at, gs, mod, name, t, v, case['codec'], case['numeric'])
            return [res] if res else []
    return []
