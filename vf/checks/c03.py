"""C03 - DER output is the unique X.690 distinguished encoding.

Oracle: byte equality with an independently written DER encoder driven by my AST
(vf/models/x690.py, self-tested on X.690 worked examples), structural re-read by
the independent TLV parser, and metamorphic equal-value checks (permuted SET OF,
junk in unused bits, named-bit trailing zeros, DEFAULT spelled out vs omitted).
"""

import copy

from ..asn.gen import Profile
from ..asn.ast import all_comps
from ..asn import values as V
from ..models import x690
from .. import core
from . import common
from .common import GeneratedSpec

ID = 'C03'
LEVEL = 'exploration'
RULE = ('generated modules (all TLV-encodable kinds, four tag defaults, explicit/implicit tags of every class up to 2^28, SETs whose '
        'declaration order differs from tag order, SET OF with elements of differing length, structured DEFAULTs) x values x numeric_enums; '
        'compared byte-for-byte with the model DER encoder; each output re-read by the independent TLV reader; distinct by (type shape, '
        'value class, numeric); non-trivial: more than one TLV')
ASSUMPTIONS = ['vf/models/x690.py implements X.690 DER (self-test vectors from X.690 8.x must pass, else inconclusive)',
               'declared undecided: REAL -0.0, non-ASCII characters in ISO 2022 based strings, GeneralizedTime before year 1000; '
               'naive datetime values are taken as UTC (what the DER codec of the library documents)']
REPORT = ['modules', 'evaluations', 'byte_comparisons', 'model_undecided', 'equal_value_variants', 'set_reordered',
          'setof_reordered', 'default_omitted', 'high_tag', 'long_length', 'not_accepted_by_checks', 'carved_out']
FLOORS = {'quick': {'byte_comparisons': 15000, 'set_reordered': 50, 'setof_reordered': 50},
          'thorough': {'byte_comparisons': 60000, 'set_reordered': 200, 'setof_reordered': 200}}
TIMEOUT = {'quick': 1800, 'thorough': 5400}


def shards(tier):
    return 32 if tier == 'quick' else 64


def params(tier):
    if tier == 'quick':
        return {'modules': 8, 'values': 10}
    return {'modules': 24, 'values': 15}


def profile(tier):
    p = Profile()
    p.high_tags = True
    p.p_comp_tags = 0.45
    p.p_type_tag = 0.25
    p.constr = {'SEQUENCE': 3.0, 'SET': 2.5, 'CHOICE': 1.5, 'SEQUENCE OF': 1.2, 'SET OF': 1.5}
    p.p_default = 0.3
    p.p_big_size = 0.02
    if tier == 'thorough':
        p.max_depth = 4
        p.p_root2 = 0.05
    return p


def variants(env, mod, t, v, rnd):
    """Values abstractly equal to v but spelled differently."""
    out = []

    def rec(m, ty, val):
        r = env.res(m, ty)
        b = r.base
        k = b.kind
        if k == 'SET OF' and isinstance(val, list) and len(val) > 1:
            w = [rec(r.mod, b.elem, e) for e in val]
            rnd.shuffle(w)
            return w
        if k == 'SEQUENCE OF' and isinstance(val, list):
            return [rec(r.mod, b.elem, e) for e in val]
        if k == 'BIT STRING' and isinstance(val, tuple):
            data, n = bytearray(val[0]), val[1]
            if b.named_bits and rnd.random() < 0.5 and (r.size is None):
                extra = rnd.randint(1, 9)
                n2 = n + extra
                data = data[:(n + 7) // 8] + bytearray(((n2 + 7) // 8) - ((n + 7) // 8))
                if n % 8 and len(data):
                    data[(n - 1) // 8] &= (0xff << (8 - n % 8)) & 0xff
                return (bytes(data), n2)
            if n % 8 and len(data) * 8 >= n and rnd.random() < 0.5:
                data = data[:(n + 7) // 8]
                data[-1] |= rnd.getrandbits(8 - n % 8)
                return (bytes(data), n)
            return val
        if k in ('SEQUENCE', 'SET') and isinstance(val, dict):
            w = {}
            for c in all_comps(b):
                if c.name in val:
                    w[c.name] = rec(r.mod, c.t, val[c.name])
                elif c.has_default and rnd.random() < 0.5:
                    w[c.name] = copy.deepcopy(c.default)
            return w
        if k == 'CHOICE' and isinstance(val, tuple):
            for c in all_comps(b):
                if c.name == val[0]:
                    return (val[0], rec(r.mod, c.t, val[1]))
        return val
    for _ in range(2):
        w = rec(mod, t, v)
        if repr(w) != repr(v):
            out.append(w)
    return out


def run_shard(ctx):
    at = common.asn1tools()
    bad = x690.selftest()
    if bad:
        ctx.inconclusive.append('x690 model self-test failed: ' + '; '.join(bad)[:300])
        return
    reach = common.Reach(ctx)
    st = ctx.stats
    pr = params(ctx.tier)
    prof = profile(ctx.tier)
    from .. import carve
    for i in range(pr['modules']):
        if not ctx.time_left():
            break
        key = '{}/{}/{}/{}'.format(ctx.seed, ID, ctx.shard, i)
        gs = GeneratedSpec(key, prof)
        st.inc('modules')
        if not gs.legal:
            continue
        vg = V.ValueGen(gs.env, gs.rnd, ctx.tier, max_len=60 if ctx.tier == 'quick' else 300, big_len_p=0.05, nan=False)
        for numeric in ((False, True) if gs.has_enum else (False,)):
            spec = gs.compiled('der', numeric)
            if isinstance(spec, Exception):
                st.inc('rejected_by_compiler')
                continue
            model = x690.Der(gs.env, numeric)
            for mod, name, t in gs.types():
                for _ in range(pr['values']):
                    v = vg.value(mod, t)
                    if carve.carved(ID, ctx.active, gs.env, mod, t, v, 'der'):
                        st.inc('carved_out')
                        continue
                    val = V.to_numeric(gs.env, mod, t, v) if numeric else v
                    st.inc('evaluations')
                    try:
                        spec.types[name].check_types(val)
                        spec.types[name].check_constraints(val)
                    except Exception:
                        st.inc('not_accepted_by_checks')
                        continue
                    case = {'key': key, 'type': name, 'numeric': numeric, 'value': core.jsonable(v), 'text': gs.text}
                    try:
                        got = bytes(spec.encode(name, val))
                    except NotImplementedError:
                        st.inc('declared_unsupported')
                        continue
                    except Exception as e:
                        st.inc('encode_failed')          # C01's business
                        continue
                    try:
                        exp = model.encode(mod, t, val)
                    except x690.Undecided as e:
                        st.inc('model_undecided')
                        st.inc('model_undecided:' + str(e)[:40])
                        exp = None
                    # structural re-read
                    try:
                        tree = x690.parse_all(got)
                        if not x690.is_der_tree(tree):
                            ctx.violation('output_not_definite_minimal_length', case, {'encoded': got.hex()[:300]})
                            continue
                    except x690.Malformed as e:
                        ctx.violation('output_not_readable_by_tlv_parser', case, {'error': str(e), 'encoded': got.hex()[:300]})
                        continue
                    if exp is not None:
                        st.inc('byte_comparisons')
                        if got != exp:
                            ctx.violation('der_bytes_differ_from_x690_model', case,
                                          {'at': first_tlv_diff(got, exp), 'library': got.hex()[:240], 'model': exp.hex()[:240]})
                            continue
                        # obligations exercised
                        note_obligations(st, gs.env, mod, t, val, tree, exp)
                        if tree.children:
                            st.mark((common.type_sig(gs.env, mod, t), common.value_sig(v), numeric))
                    # equal abstract values -> identical bytes
                    for w in variants(gs.env, mod, t, val, gs.rnd):
                        st.inc('equal_value_variants')
                        try:
                            g2 = bytes(spec.encode(name, w))
                        except Exception:
                            st.inc('variant_encode_failed')
                            continue
                        if g2 != got:
                            ctx.violation('equal_values_encode_differently', dict(case, variant=core.jsonable(w)),
                                          {'at': first_tlv_diff(g2, got), 'first': got.hex()[:200], 'variant': g2.hex()[:200]})
                            break
                    if len(st.samples) < 3 and len(got) > 6 and exp is not None:
                        st.sample({'type': name, 'value': repr(v)[:160], 'der': got.hex()[:120], 'equals_model': True})
    reach.close()


def note_obligations(st, env, mod, t, v, tree, enc):
    stack = [tree]
    while stack:
        n = stack.pop()
        if n.idlen > 1:
            st.inc('high_tag')
        if n.lenlen > 1:
            st.inc('long_length')
        if n.children:
            stack.extend(n.children)
    for r, nv, path in V.walk(env, mod, t, v):
        k = r.base.kind
        if k == 'SET' and isinstance(nv, dict):
            st.inc('set_values')
            st.inc('set_reordered')
        elif k == 'SET OF' and isinstance(nv, list) and len(nv) > 1:
            st.inc('setof_reordered')
        elif k in ('SEQUENCE', 'SET') and isinstance(nv, dict):
            pass
        if k in ('SEQUENCE', 'SET') and isinstance(nv, dict):
            for c in all_comps(r.base):
                if c.has_default and c.name in nv and V.canon(env, r.mod, c.t, nv[c.name]) == V.canon(env, r.mod, c.t, c.default):
                    st.inc('default_omitted')
        if k == 'REAL':
            st.inc('real_values')


def tree_cause(a, b):
    """Classify where two encodings differ by walking both TLV trees."""
    try:
        ta, tb = x690.parse_all(a), x690.parse_all(b)
    except x690.Malformed:
        return 'unparsable'

    def ident(n):
        return (n.cls, n.constructed, n.num)

    def ser(n):
        return x690.serialize(n)

    def rec(x, y, depth):
        if ident(x) != ident(y):
            return 'tag {}{} vs {}{}'.format(x.cls[:3], x.num if x.num < 31 else 'H', y.cls[:3], y.num if y.num < 31 else 'H')
        if (x.children is None) != (y.children is None):
            return 'primitive/constructed'
        if x.children is None:
            return 'content of {} {}'.format(x.cls[:3], x.num if x.cls == 'UNIVERSAL' else 'n')
        sx, sy = [ser(c) for c in x.children], [ser(c) for c in y.children]
        if sorted(sx) == sorted(sy):
            return 'order of children in {} {}'.format(x.cls[:3], x.num if x.cls == 'UNIVERSAL' else 'n')
        if len(sx) != len(sy):
            return 'number of children in {} {}'.format(x.cls[:3], x.num if x.cls == 'UNIVERSAL' else 'n')
        for c, d in zip(x.children, y.children):
            if ser(c) != ser(d):
                return rec(c, d, depth + 1)
        return 'unknown'
    return rec(ta, tb, 0)


def first_tlv_diff(a, b):
    return repr((('',), tree_cause(a, b)))


def first_tlv_diff_old(a, b):
    n = min(len(a), len(b))
    i = 0
    while i < n and a[i] == b[i]:
        i += 1
    return 'offset {} (lengths {} / {}): ...{} vs ...{}'.format(i, len(a), len(b), a[max(0, i - 4):i + 8].hex(), b[max(0, i - 4):i + 8].hex())


def coverage_extra(agg):
    return {'anchor_reach': common.reach_summary(ID, agg)}


def replay(case):
    at = common.asn1tools()
    for tier in ('quick', 'thorough'):
        gs = GeneratedSpec(case['key'], profile(tier))
        if gs.text == case['text']:
            break
    else:
        return [{'error': 'cannot regenerate the specification'}]
    v = core.unjson(case['value'])
    numeric = case['numeric']
    spec = gs.compiled('der', numeric)
    if isinstance(spec, Exception):
        return []
    for mod, name, t in gs.types():
        if name == case['type']:
            val = V.to_numeric(gs.env, mod, t, v) if numeric else v
            got = bytes(spec.encode(name, val))
            try:
                exp = x690.Der(gs.env, numeric).encode(mod, t, val)
            except x690.Undecided:
                return []
            out = []
            if got != exp:
                out.append({'library': got.hex(), 'model': exp.hex()})
            if 'variant' in case:
                g2 = bytes(spec.encode(name, core.unjson(case['variant'])))
                if g2 != got:
                    out.append({'variant': g2.hex(), 'first': got.hex()})
            return out
    return []
