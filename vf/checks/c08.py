"""C08 - decoding arbitrary bytes terminates within bounded work and memory, and
leaves no trace in the compiled specification.

Monitors: (1) a logical step budget - LINE events executed inside asn1tools code,
counted by a sys.monitoring callback that raises out of the decode when the
budget S(|b|) is exceeded (no wall-clock verdicts); (2) RLIMIT_AS on the worker
(MemoryError inside decode = unbounded allocation); (3) a sentinel valid decode
on the same Specification object after every hostile input.
"""

import resource

from ..asn.gen import Profile
from ..asn.ast import all_comps, STRING_KINDS
from ..asn import values as V
from ..models import x690
from .. import core, monitor
from . import common
from .common import GeneratedSpec

ID = 'C08'
LEVEL = 'exploration'
DECODERS = ['ber', 'der', 'per', 'uper', 'oer', 'jer', 'xer']
RULE = ('generated modules x 7 decoding codecs x hostile inputs <= 4 KiB: valid encodings mutated by bit flips, truncation, '
        'insertion, splicing, length-field tampering (00 7f 80 81 ff 84ffffffff), tag substitution on the parsed TLV tree, '
        'count inflation, text-structure mutations for JER/XER, and uniformly random strings; budget S(n) = 2e5 + 4000(n+1) '
        'LINE events (zero-width list element types: n <= 8, 2e5 + 40*65536*n); distinct by (codec, mutation kind, outcome '
        'class, input length bucket, type shape)')
ASSUMPTIONS = ['work is measured in interpreter LINE events inside asn1tools (C-level work of json/ElementTree/int parsing is not counted)',
               'memory bound = RLIMIT_AS 3 GiB on the worker process',
               'any exception type is an acceptable outcome for this property']
REPORT = ['modules', 'evaluations', 'outcome:value', 'outcome:library_error', 'outcome:foreign_error', 'sentinel_checks',
          'zero_width_class_inputs', 'carved_out']
FLOORS = {'quick': {'evaluations': 20000, 'sentinel_checks': 20000},
          'thorough': {'evaluations': 80000, 'sentinel_checks': 80000}}
TIMEOUT = {'quick': 1800, 'thorough': 5400}
RLIMIT_AS = 3 << 30


def shards(tier):
    return 32 if tier == 'quick' else 64


def params(tier):
    if tier == 'quick':
        return {'modules': 4, 'seeds_per_type': 3, 'mutants': 14, 'randoms': 6}
    return {'modules': 12, 'seeds_per_type': 5, 'mutants': 21, 'randoms': 9}


def profile(tier):
    p = Profile()
    p.p_big_size = 0.0
    p.p_recursive = 0.3
    return p


def budget(n, zero_width):
    if zero_width:
        return 200000 + 40 * 65536 * max(n, 1)
    return 200000 + 4000 * (n + 1)


def zero_width(env, mod, t, codec, depth=0):
    """Can a value of t occupy zero bits in codec (PER/UPER/OER)?  Over-approximation."""
    if codec not in ('per', 'uper', 'oer'):
        return False
    if depth > 6:
        return True
    r = env.res(mod, t)
    b = r.base
    k = b.kind
    per = codec != 'oer'
    if k == 'NULL':
        return True
    if k == 'INTEGER':
        return per and r.rng is not None and not r.rng.ext and r.rng.lo is not None and r.rng.lo == r.rng.hi
    if k == 'ENUMERATED':
        return per and len(b.enum_root) == 1 and b.enum_ext is None
    if k in ('BIT STRING', 'OCTET STRING') or k in STRING_KINDS:
        return r.size is not None and not r.size.ext and r.size.hi == 0
    if k in ('SEQUENCE', 'SET'):
        if b.ext is not None:       # (EXTENSIBILITY IMPLIED is not counted: it is not applied to list elements, see KNOWN_FINDINGS)
            return False
        cs = all_comps(b)
        if any(c.optional or c.has_default for c in cs):
            return False
        return all(zero_width(env, r.mod, c.t, codec, depth + 1) for c in cs)
    if k == 'CHOICE':
        cs = all_comps(b)
        return per and b.ext is None and len(cs) == 1 and zero_width(env, r.mod, cs[0].t, codec, depth + 1)
    if k in ('SEQUENCE OF', 'SET OF'):
        if r.size is not None and not r.size.ext and r.size.hi == 0:
            return True
        if per and r.size is not None and not r.size.ext and r.size.lo == r.size.hi:
            return zero_width(env, r.mod, b.elem, codec, depth + 1)
        return False
    return False


KM = ('NumericString', 'PrintableString', 'IA5String', 'VisibleString', 'BMPString')


def has_zero_width_list(env, mod, t, codec):
    """Types in which one length/count field can legitimately announce many
    zero-bit items: lists of zero-width elements, and (PER) known-multiplier
    strings whose permitted alphabet has a single character (0 bits each)."""
    for r, path, _ in V.walk_types(env, mod, t):
        if r.base.kind in ('SEQUENCE OF', 'SET OF'):
            if zero_width(env, r.mod, r.base.elem, codec):
                return True
        if codec in ('per', 'uper') and r.base.kind in KM and r.alpha is not None and len(r.alpha.chars()) == 1:
            return True
    return False


TAMPER = [b'\x00', b'\x7f', b'\x80', b'\x81', b'\xff', b'\x84\xff\xff\xff\xff', b'\x82\xff\xff', b'\xc4', b'\xc1',
          b'\x04\xff\xff\xff\xff', b'\x02\xff\xff', b'\x01\xff']


def tlv_positions(data):
    """Offsets of identifier and length octets of every TLV (BER family)."""
    out = []
    try:
        root = x690.parse_all(data)
    except Exception:
        return out
    stack = [root]
    while stack:
        n = stack.pop()
        out.append((n.start, n.idlen, n.lenlen))
        if n.children:
            stack.extend(n.children)
    return out


def mutate_binary(rnd, enc, others, codec):
    """-> (kind, bytes)"""
    b = bytearray(enc)
    kind = rnd.choice(['bitflip', 'bitflip', 'truncate', 'insert', 'splice', 'length_tamper', 'tag_subst', 'byte_set',
                       'count_inflate', 'duplicate', 'multi'])
    n = len(b)
    if n == 0:
        return 'random', bytes(rnd.getrandbits(8) for _ in range(rnd.randint(1, 8)))
    if kind == 'bitflip':
        for _ in range(rnd.choice([1, 1, 2, 4])):
            i = rnd.randrange(n)
            b[i] ^= 1 << rnd.randrange(8)
    elif kind == 'truncate':
        del b[rnd.randrange(n):]
    elif kind == 'insert':
        i = rnd.randrange(n + 1)
        b[i:i] = bytes(rnd.getrandbits(8) for _ in range(rnd.choice([1, 2, 4, 16])))
    elif kind == 'splice':
        o = rnd.choice(others) if others else enc
        i = rnd.randrange(n + 1)
        j = rnd.randrange(len(o) + 1)
        b = bytearray(b[:i] + o[j:])
    elif kind == 'length_tamper':
        pos = tlv_positions(enc) if codec in ('ber', 'der') else []
        if pos:
            s, il, ll = rnd.choice(pos)
            b[s + il:s + il + ll] = rnd.choice(TAMPER)
        else:
            i = rnd.randrange(n)
            b[i:i + 1] = rnd.choice(TAMPER)
    elif kind == 'tag_subst':
        pos = tlv_positions(enc) if codec in ('ber', 'der') else []
        if pos:
            s, il, ll = rnd.choice(pos)
            s2, il2, _ = rnd.choice(pos)
            repl = bytes(enc[s2:s2 + il2]) if rnd.random() < 0.6 else bytes([rnd.choice([0x02, 0x04, 0x05, 0x30, 0x31, 0x0a, 0xa0, 0x80, 0x1f, 0x3f, 0xbf])])
            b[s:s + il] = repl
        else:
            i = rnd.randrange(n)
            b[i] = rnd.choice(enc)
    elif kind == 'byte_set':
        i = rnd.randrange(n)
        b[i] = rnd.choice([0x00, 0x7f, 0x80, 0x81, 0xff, 0xc4, 0xfe, 0x40])
    elif kind == 'count_inflate':
        i = rnd.randrange(min(n, 6))
        b[i:i + 1] = rnd.choice([b'\x04\xff\xff\xff\xff', b'\xc4', b'\xff\xff', b'\x7f', b'\x02\xff\xff', b'\xbf\xff'])
    elif kind == 'duplicate':
        i = rnd.randrange(n)
        j = rnd.randrange(i, n)
        b[i:i] = b[i:j + 1] * rnd.choice([1, 2, 8])
    else:
        for _ in range(3):
            k2, b2 = mutate_binary(rnd, bytes(b), others, codec)
            b = bytearray(b2)
    return kind, bytes(b[:4096])


def mutate_text(rnd, enc, others, codec):
    s = enc.decode('utf-8', 'replace')
    kind = rnd.choice(['char', 'delete', 'duplicate', 'deep', 'huge_number', 'rename', 'truncate', 'splice', 'garbage'])
    n = len(s)
    if kind == 'char' and n:
        i = rnd.randrange(n)
        s = s[:i] + rnd.choice('{}[]<>/",:0-9eE.\\ \x00&;#xatn') + s[i + 1:]
    elif kind == 'delete' and n:
        i = rnd.randrange(n)
        s = s[:i] + s[i + rnd.choice([1, 2, 5]):]
    elif kind == 'duplicate' and n:
        i = rnd.randrange(n)
        j = rnd.randrange(i, n)
        s = s[:i] + s[i:j + 1] * rnd.choice([2, 8, 50]) + s[j + 1:]
    elif kind == 'deep':
        d = rnd.choice([50, 500, 1500])
        if codec == 'jer':
            s = rnd.choice(['[', '{"a":']) * d
        else:
            s = '<a>' * d
    elif kind == 'huge_number':
        big = rnd.choice(['9' * 3000, '1e999999', '-' + '7' * 2000, '0.' + '3' * 3000, '1E-999999'])
        import re
        s2 = re.sub(r'-?\d+(\.\d+)?([eE][-+]?\d+)?', big, s, count=1)
        s = s2 if s2 != s else big
    elif kind == 'rename' and n:
        import re
        names = re.findall(r'[A-Za-z][A-Za-z0-9-]*', s)
        if names:
            a = rnd.choice(names)
            s = s.replace(a, rnd.choice(names + ['zz', 'true', 'null']), 1)
    elif kind == 'truncate' and n:
        s = s[:rnd.randrange(n)]
    elif kind == 'splice' and others:
        o = rnd.choice(others).decode('utf-8', 'replace')
        s = s[:rnd.randrange(n + 1)] + o[rnd.randrange(len(o) + 1):]
    else:
        s = ''.join(chr(rnd.choice([rnd.randrange(32, 127), rnd.randrange(1, 0x2000)])) for _ in range(rnd.randint(0, 60)))
    return kind, s.encode('utf-8', 'replace')[:4096]


def run_shard(ctx):
    at = common.asn1tools()
    st = ctx.stats
    pr = params(ctx.tier)
    prof = profile(ctx.tier)
    stepper = monitor.StepBudget()
    from .. import carve
    rnd = ctx.rnd
    for i in range(pr['modules']):
        if not ctx.time_left():
            break
        key = '{}/{}/{}/{}'.format(ctx.seed, ID, ctx.shard, i)
        gs = GeneratedSpec(key, prof)
        st.inc('modules')
        if not gs.legal:
            continue
        vg = V.ValueGen(gs.env, gs.rnd, ctx.tier, max_len=40, big_len_p=0.0)
        types = gs.types()
        for codec in DECODERS:
            spec = gs.compiled(codec)
            if isinstance(spec, Exception):
                st.inc('rejected_by_compiler')
                continue
            # valid seeds
            seeds = {}
            for mod, name, t in types:
                lst = []
                for _ in range(pr['seeds_per_type']):
                    v = vg.value(mod, t)
                    try:
                        enc = bytes(spec.encode(name, v))
                        dec = spec.decode(name, enc)
                        lst.append((enc, repr(dec)))
                    except Exception:
                        continue
                seeds[name] = lst
            allenc = [e for lst in seeds.values() for e, _ in lst]
            if not allenc:
                continue
            sentinel = None
            for mod, name, t in types:
                if seeds[name]:
                    sentinel = (name,) + seeds[name][0]
                    break
            for mod, name, t in types:
                zw = has_zero_width_list(gs.env, mod, t, codec)
                if carve.carved(ID, ctx.active, gs.env, mod, t, None, codec):
                    st.inc('carved_out')
                    continue
                inputs = []
                for enc, _ in seeds[name]:
                    for _ in range(pr['mutants']):
                        if codec in ('jer', 'xer'):
                            inputs.append(mutate_text(rnd, enc, allenc, codec))
                        else:
                            inputs.append(mutate_binary(rnd, enc, allenc, codec))
                for _ in range(pr['randoms']):
                    ln = rnd.choice([0, 1, 2, 3, 4, 8, 16, 64, 256, 1024, 4096])
                    inputs.append(('random', bytes(rnd.getrandbits(8) for _ in range(ln))))
                tsig = None
                for kind, data in inputs:
                    if zw:
                        data = data[:8]
                        st.inc('zero_width_class_inputs')
                    lim = budget(len(data), zw)
                    try:
                        outcome, val, steps = stepper.call(lambda: spec.decode(name, data), lim)
                    except MemoryError:
                        outcome, val, steps = 'memory', None, stepper.steps
                    st.inc('evaluations')
                    st.inc('codec:' + codec)
                    st.inc('mutation:' + kind)
                    case = {'text': gs.text, 'type': name, 'codec': codec, 'data': data.hex(), 'zero_width': zw,
                            'mutation': kind}
                    if outcome == 'budget':
                        ctx.violation('step_budget_exceeded', case,
                                      {'input_len': len(data), 'budget': lim, 'steps_when_aborted': steps})
                        oc = 'budget'
                    elif outcome == 'memory' or (outcome == 'error' and isinstance(val, MemoryError)):
                        ctx.violation('unbounded_allocation', case, {'input_len': len(data), 'rlimit_as': RLIMIT_AS})
                        oc = 'memory'
                    elif outcome == 'value':
                        oc = 'value'
                    elif isinstance(val, at.Error):
                        oc = 'library_error'
                    else:
                        oc = 'foreign_error'
                        st.inc('foreign:' + type(val).__name__)
                    st.inc('outcome:' + oc)
                    if len(data):
                        st.max('max_steps_per_input_byte', steps / float(len(data)))
                    st.max('max_steps', steps)
                    if tsig is None:
                        tsig = common.type_sig(gs.env, mod, t)[:80]
                    st.mark((codec, kind, oc, min(len(data), 4096) // 64, tsig))
                    # sentinel: a valid decode on the same Specification object
                    if sentinel is not None:
                        st.inc('sentinel_checks')
                        try:
                            now = repr(spec.decode(sentinel[0], sentinel[1]))
                        except Exception as e:
                            now = 'raised ' + common.short_exc(e)
                        if now != sentinel[2]:
                            ctx.violation('later_valid_input_decodes_differently', case,
                                          {'sentinel_type': sentinel[0], 'before': sentinel[2][:200], 'after': now[:200]})
                    if len(st.samples) < 4 and kind != 'random' and len(data) > 4:
                        st.sample({'codec': codec, 'mutation': kind, 'input': data.hex()[:80], 'outcome': oc,
                                   'steps': steps, 'budget': lim})
    stepper.close()


def replay(case):
    at = common.asn1tools()
    spec = at.compile_string(case['text'], case['codec'])
    data = bytes.fromhex(case['data'])
    stepper = monitor.StepBudget()
    lim = budget(len(data), case.get('zero_width', False))
    outcome, val, steps = stepper.call(lambda: spec.decode(case['type'], data), lim)
    stepper.close()
    if outcome == 'budget':
        return [{'steps': steps, 'budget': lim}]
    return []
