"""C02 - JER/XER round-trip every value and emit well-formed documents.

Two readers per document: mine (strict RFC 8259 JSON / expat well-formedness, then a
type-directed JER / BASIC-XER reader driven by my AST) decides "emits a well-formed
document that determines the value"; the library's own decoder decides round-trip.
Both results must equal the value that was encoded; REALs by IEEE bit pattern.
"""

from ..asn.gen import Profile
from ..asn.ast import STRING_KINDS
from ..asn import values as V
from ..models import textreaders as TR
from .. import core
from . import common
from .common import GeneratedSpec

ID = 'C02'
LEVEL = 'exploration'
RULE = ('generated modules x values (strings biased to < > & " \' ]]> leading/trailing/only blanks and empty; REALs of all magnitudes, '
        'infinities, integers passed as REAL; lists of BOOLEAN/ENUMERATED/CHOICE/NULL) x {jer,xer} x indent in {None,0,1,4} x numeric_enums; '
        'values containing characters that XML 1.0 cannot represent are skipped for XER; distinct by (codec, indent, type shape, value class)')
ASSUMPTIONS = ['JSON strictness = Python json with NaN/Infinity literals, duplicate names and lone surrogates rejected; XML well-formedness = expat',
               'my JER/XER readers are type-directed from my AST; time types are not read by them (library round trip only)']
REPORT = ['modules', 'evaluations', 'documents_read_by_independent_reader', 'library_roundtrips', 'reals_compared',
          'strings_with_markup_characters', 'skipped_xml_illegal_characters', 'reader_not_applicable', 'carved_out']
FLOORS = {'quick': {'evaluations': 20000, 'documents_read_by_independent_reader': 15000, 'reals_compared': 1000},
          'thorough': {'evaluations': 80000, 'documents_read_by_independent_reader': 60000, 'reals_compared': 4000}}
TIMEOUT = {'quick': 1800, 'thorough': 5400}
INDENTS = [None, 0, 1, 4]
MARKUP = ['<', '>', '&', '"', "'", ']]>', '<!--', ' x', 'x ', '  ', '\t', '\n', '', '&amp;', '&#13;', '\\', '/', '{', '\x7f', 'é', '中']


def shards(tier):
    return 32 if tier == 'quick' else 64


def params(tier):
    if tier == 'quick':
        return {'modules': 6, 'values': 8}
    return {'modules': 18, 'values': 12}


def profile(tier):
    p = Profile()
    p.p_big_size = 0.0
    p.prims['REAL'] = 2.5
    p.prims['UTF8String'] = 2.0
    p.prims['BOOLEAN'] = 2.0
    p.prims['NULL'] = 1.5
    p.constr['SEQUENCE OF'] = 2.5
    p.hyphen_names = True
    return p


def spice(env, mod, t, v, rnd):
    """Inject markup-significant strings into unconstrained string nodes."""
    r = env.res(mod, t)
    b = r.base
    k = b.kind
    from ..asn.ast import all_comps
    if k in ('UTF8String', 'GeneralString', 'GraphicString', 'UniversalString', 'BMPString') and r.size is None and r.alpha is None:
        if rnd.random() < 0.5:
            return rnd.choice(MARKUP) + (v if rnd.random() < 0.5 else '') + rnd.choice(['', '', ' ', '<', '&'])
        return v
    if k == 'REAL' and rnd.random() < 0.1 and not b.real_fmt:
        return rnd.choice([5, 0, -3, 10 ** 20, 255])         # integers passed as REAL
    if k in ('SEQUENCE', 'SET') and isinstance(v, dict):
        return {c.name: spice(env, r.mod, c.t, v[c.name], rnd) for c in all_comps(b) if c.name in v}
    if k == 'CHOICE' and isinstance(v, tuple):
        for c in all_comps(b):
            if c.name == v[0]:
                return (v[0], spice(env, r.mod, c.t, v[1], rnd))
    if k in ('SEQUENCE OF', 'SET OF') and isinstance(v, list):
        return [spice(env, r.mod, b.elem, e, rnd) for e in v]
    return v


def strings_of(env, mod, t, v):
    return [nv for r, nv, p in V.walk(env, mod, t, v) if isinstance(nv, str)]


def run_shard(ctx):
    at = common.asn1tools()
    reach = common.Reach(ctx)
    st = ctx.stats
    pr = params(ctx.tier)
    prof = profile(ctx.tier)
    from .. import carve
    for i in range(pr['modules']):
        if not ctx.time_left():
            break
        key = '{}/{}/{}/{}'.format(ctx.seed, ID, ctx.shard, i)
        gs = GeneratedSpec(key, prof)
        st.inc('modules')
        if not gs.legal:
            continue
        vg = V.ValueGen(gs.env, gs.rnd, ctx.tier, max_len=20, big_len_p=0.0)
        cases = []
        for mod, name, t in gs.types():
            for _ in range(pr['values']):
                cases.append((mod, name, t, spice(gs.env, mod, t, vg.value(mod, t), gs.rnd)))
        for codec in ('jer', 'xer'):
            for numeric in ((False, True) if gs.has_enum else (False,)):
                spec = gs.compiled(codec, numeric)
                if isinstance(spec, Exception):
                    st.inc('rejected_by_compiler')
                    continue
                for mod, name, t, v in cases:
                    if carve.carved(ID, ctx.active, gs.env, mod, t, v, codec):
                        st.inc('carved_out')
                        continue
                    strs = strings_of(gs.env, mod, t, v)
                    if codec == 'xer' and any(not TR.xml_legal(s) for s in strs):
                        st.inc('skipped_xml_illegal_characters')
                        continue
                    val = V.to_numeric(gs.env, mod, t, v) if numeric else v
                    try:
                        spec.types[name].check_types(val)
                        spec.types[name].check_constraints(val)
                    except Exception:
                        st.inc('not_accepted_by_checks')
                        continue
                    indent = gs.rnd.choice(INDENTS)
                    case = {'key': key, 'text': gs.text, 'type': name, 'codec': codec, 'numeric': numeric, 'indent': indent,
                            'value': core.jsonable(v)}
                    st.inc('evaluations')
                    st.inc('codec:' + codec)
                    st.inc('indent:' + str(indent))
                    try:
                        kw = {} if indent is None else {'indent': indent}
                        doc = core.guarded(lambda: bytes(spec.encode(name, val, **kw)), 30)
                    except core.CaseTimeout:
                        outcome, steps = core.decide_hang(lambda: spec.encode(name, val, **kw))
                        if outcome == 'budget':
                            ctx.violation('encoder_does_not_terminate', case, {'steps': steps})
                        continue
                    except NotImplementedError:
                        st.inc('declared_unsupported')
                        continue
                    except Exception as e:
                        ctx.violation('encode_raises_on_accepted_value', case, {'error': common.short_exc(e), 'codec': codec})
                        continue
                    if any(any(m in s for m in ('<', '>', '&', '"', "'")) for s in strs):
                        st.inc('strings_with_markup_characters')
                    nreals = sum(1 for r, nv, p in V.walk(gs.env, mod, t, v) if r.base.kind == 'REAL')
                    # --- independent reader
                    try:
                        if codec == 'jer':
                            mine = TR.jer_read(gs.env, mod, t, TR.strict_json(doc), numeric)
                        else:
                            root = TR.xml_parse(doc)
                            if root.name != name.replace(' ', '_'):
                                raise TR.ReadError('root element {} != type name {}'.format(root.name, name))
                            mine = TR.xer_read(gs.env, mod, t, root)
                            if numeric:
                                mine = V.to_numeric(gs.env, mod, t, mine)
                        st.inc('documents_read_by_independent_reader')
                        if V.canon(gs.env, mod, t, mine, numeric) != V.canon(gs.env, mod, t, val, numeric):
                            d = V.first_diff(gs.env, mod, t, val, mine, numeric)
                            ctx.violation('document_read_by_independent_reader_gives_other_value', case,
                                          {'codec': codec, 'indent': indent, 'at': repr(d), 'document': doc.decode('utf-8', 'replace')[:300]})
                            continue
                    except TR.Unreadable:
                        st.inc('reader_not_applicable')
                    except TR.ReadError as e:
                        ctx.violation('document_not_well_formed_or_not_valid', case,
                                      {'codec': codec, 'indent': indent, 'error': str(e)[:200],
                                       'document': doc.decode('utf-8', 'replace')[:300]})
                        continue
                    except Exception as e:
                        st.inc('independent_reader_crashed:' + type(e).__name__)
                        ctx.inconclusive.append('my reader crashed: ' + common.short_exc(e))
                        continue
                    # --- library round trip
                    try:
                        back = spec.decode(name, doc)
                    except Exception as e:
                        ctx.violation('library_cannot_decode_its_own_document', case,
                                      {'codec': codec, 'indent': indent, 'error': common.short_exc(e),
                                       'document': doc.decode('utf-8', 'replace')[:300]})
                        continue
                    st.inc('library_roundtrips')
                    st.inc('reals_compared', nreals)
                    if V.canon(gs.env, mod, t, back, numeric) != V.canon(gs.env, mod, t, val, numeric):
                        d = V.first_diff(gs.env, mod, t, val, back, numeric)
                        ctx.violation('roundtrip_mismatch', case, {'codec': codec, 'indent': indent, 'at': repr(d),
                                                                   'document': doc.decode('utf-8', 'replace')[:300]})
                        continue
                    if not common.is_trivial_type(gs.env, mod, t):
                        st.mark((codec, indent, common.type_sig(gs.env, mod, t)[:100], common.value_sig(v)[:60], numeric))
                    if len(st.samples) < 4 and 10 < len(doc) < 200:
                        st.sample({'codec': codec, 'indent': indent, 'document': doc.decode('utf-8', 'replace'), 'value': repr(v)[:150]})
    reach.close()


def coverage_extra(agg):
    return {'anchor_reach': common.reach_summary(ID, agg)}


def replay(case):
    at = common.asn1tools()
    spec = at.compile_string(case['text'], case['codec'], numeric_enums=case['numeric'])
    v = core.unjson(case['value'])
    gs = GeneratedSpec(case['key'], profile('quick'))
    if gs.text != case['text']:
        return [{'note': 'cannot regenerate'}]
    for mod, name, t in gs.types():
        if name == case['type']:
            val = V.to_numeric(gs.env, mod, t, v) if case['numeric'] else v
            kw = {} if case['indent'] is None else {'indent': case['indent']}
            try:
                doc = spec.encode(name, val, **kw)
                back = spec.decode(name, doc)
            except Exception as e:
                return [{'error': common.short_exc(e)}]
            if V.canon(gs.env, mod, t, back, case['numeric']) != V.canon(gs.env, mod, t, val, case['numeric']):
                return [{'decoded': repr(back)[:300]}]
            try:
                if case['codec'] == 'jer':
                    mine = TR.jer_read(gs.env, mod, t, TR.strict_json(doc), case['numeric'])
                else:
                    mine = TR.xer_read(gs.env, mod, t, TR.xml_parse(doc))
                    if case['numeric']:
                        mine = V.to_numeric(gs.env, mod, t, mine)
                if V.canon(gs.env, mod, t, mine, case['numeric']) != V.canon(gs.env, mod, t, val, case['numeric']):
                    return [{'independent_reader': repr(mine)[:300]}]
            except TR.Unreadable:
                pass
            except TR.ReadError as e:
                return [{'read_error': str(e)}]
    return []
