"""C15 - BER/DER framing helpers agree with the decoder on where a message ends.

Oracle: header extent and total length of the message are taken from my own
X.690 TLV reader (vf/models/x690.py) applied to the encoder's output.
"""

from ..asn.gen import Profile
from ..asn import values as V
from ..models import x690
from .. import core
from . import common
from .common import GeneratedSpec

ID = 'C15'
LEVEL = 'exploration'
RULE = ('generated modules (type-level tags up to 2^28, content lengths 0..300 quick / 0..70000 thorough) x values x {ber,der}; '
        'per message: decode_with_length on msg+tail for 4 tails, decode_length on every prefix length 0..header+8, around the end '
        'of the message and sampled lengths, and on msg+tail; distinct by (identifier octets, length octets, tail kind, cut class); '
        'non-trivial: message has >= 3 octets')
ASSUMPTIONS = ['message boundaries come from the independent TLV reader in vf/models/x690.py (self-tested on X.690 vectors at start-up)',
               'the messages are the library encoder output (definite lengths)']
REPORT = ['modules', 'messages', 'evaluations', 'decode_with_length_checks', 'decode_length_checks',
          'cut_inside_identifier', 'cut_inside_length_octets', 'header_complete', 'multi_octet_identifier', 'long_form_length']
FLOORS = {'quick': {'evaluations': 50000, 'cut_inside_identifier': 200, 'cut_inside_length_octets': 500},
          'thorough': {'evaluations': 200000, 'cut_inside_identifier': 800, 'cut_inside_length_octets': 2000}}
TIMEOUT = {'quick': 1500, 'thorough': 5400}


def shards(tier):
    return 32 if tier == 'quick' else 64


def params(tier):
    if tier == 'quick':
        return {'modules': 6, 'values': 8}
    return {'modules': 18, 'values': 12}


def profile(tier):
    p = Profile()
    p.high_tags = True
    p.p_type_tag = 0.6
    p.p_big_size = 0.02
    if tier == 'thorough':
        p.max_depth = 4
    return p


def check_message(at, ctx, spec, name, msg, rnd, other, case):
    st = ctx.stats
    try:
        hdr, total = x690.header_extent(msg)
        node = x690.parse_all(msg)
    except x690.Malformed as e:
        st.inc('encoder_output_not_readable_by_model')      # C03's business
        return
    if total != len(msg):
        st.inc('encoder_output_length_mismatch')
        return
    st.inc('messages')
    if node.idlen > 1:
        st.inc('multi_octet_identifier')
    if node.lenlen > 1:
        st.inc('long_form_length')
    try:
        alone = spec.decode(name, msg)
    except Exception:
        st.inc('skipped_not_decodable')
        return
    tails = [('empty', b''), ('eoc', b'\x00\x00'),
             ('random', bytes(rnd.getrandbits(8) for _ in range(rnd.randint(1, 12)))),
             ('message', other)]
    for tk, tail in tails:
        st.inc('evaluations')
        st.inc('decode_with_length_checks')
        try:
            got = spec.decode_with_length(name, msg + tail)
        except Exception as e:
            ctx.violation('decode_with_length_raises', dict(case, tail=tail.hex()),
                          {'tail': tk, 'error': common.short_exc(e)})
            continue
        if not (isinstance(got, tuple) and len(got) == 2 and got[1] == len(msg) and repr(got[0]) == repr(alone)):
            ctx.violation('decode_with_length_disagrees', dict(case, tail=tail.hex()),
                          {'tail': tk, 'expected_length': len(msg), 'got': repr(got)[:300]})
        st.mark((msg[:node.idlen].hex(), node.lenlen, tk, 'dwl'))
    n = len(msg)
    ks = set(range(0, min(n, hdr + 8) + 1)) | {n - 1, n} | {rnd.randint(0, n) for _ in range(6)}
    full = msg + tails[2][1]
    for k in sorted(k for k in ks if 0 <= k <= n):
        st.inc('evaluations')
        st.inc('decode_length_checks')
        exp = None if k < hdr else n
        if k < node.idlen:
            st.inc('cut_inside_identifier')
            cls = 'in_ident'
        elif k < hdr:
            st.inc('cut_inside_length_octets')
            cls = 'in_len'
        else:
            st.inc('header_complete')
            cls = 'complete' if k == n else 'in_contents'
        try:
            got = spec.decode_length(msg[:k])
        except Exception as e:
            ctx.violation('decode_length_raises', dict(case, k=k), {'k': k, 'header': hdr, 'error': common.short_exc(e)})
            continue
        if got != exp:
            ctx.violation('decode_length_wrong', dict(case, k=k),
                          {'k': k, 'header_octets': hdr, 'message_length': n, 'expected': exp, 'got': got,
                           'prefix': msg[:k].hex()[:60]})
        st.mark((msg[:node.idlen].hex(), node.lenlen, cls, k if k <= hdr + 1 else -1))
    # with trailing octets after the complete message
    st.inc('evaluations')
    st.inc('decode_length_checks')
    try:
        got = spec.decode_length(full)
        if got != n:
            ctx.violation('decode_length_wrong', dict(case, k=len(full), tail=tails[2][1].hex()),
                          {'with_tail': True, 'expected': n, 'got': got})
    except Exception as e:
        ctx.violation('decode_length_raises', dict(case, k=len(full), tail=tails[2][1].hex()),
                      {'with_tail': True, 'error': common.short_exc(e)})
    if len(st.samples) < 3 and n > 6:
        st.sample({'message': msg.hex()[:80], 'identifier_octets': node.idlen, 'length_octets': node.lenlen,
                   'message_length': n, 'prefix_lengths_probed': len(ks)})


def run_shard(ctx):
    at = common.asn1tools()
    bad = x690.selftest()
    if bad:
        ctx.inconclusive.append('x690 model self-test failed: ' + '; '.join(bad)[:300])
        return
    reach = common.Reach(ctx)
    st = ctx.stats
    pr = params(ctx.tier)
    prof = profile(ctx.tier)
    from .. import carve
    for i in range(pr['modules']):
        if not ctx.time_left():
            break
        key = '{}/{}/{}/{}'.format(ctx.seed, ID, ctx.shard, i)
        gs = GeneratedSpec(key, prof)
        st.inc('modules')
        if not gs.legal:
            continue
        vg = V.ValueGen(gs.env, gs.rnd, ctx.tier, big_len_p=0.08)
        for codec in ('ber', 'der'):
            spec = gs.compiled(codec)
            if isinstance(spec, Exception):
                st.inc('rejected_by_compiler')
                continue
            other = b'\x05\x00'
            for mod, name, t in gs.types():
                for _ in range(pr['values']):
                    v = vg.value(mod, t)
                    if carve.carved(ID, ctx.active, gs.env, mod, t, v, codec):
                        st.inc('carved_out')
                        continue
                    try:
                        msg = bytes(spec.encode(name, v))
                    except Exception:
                        st.inc('skipped_not_encodable')
                        continue
                    case = {'text': gs.text, 'type': name, 'codec': codec, 'msg': msg.hex()}
                    check_message(at, ctx, spec, name, msg, gs.rnd, other, case)
                    other = msg if len(msg) < 200 else other
    reach.close()


def coverage_extra(agg):
    return {'anchor_reach': common.reach_summary(ID, agg)}


def replay(case):
    at = common.asn1tools()
    spec = at.compile_string(case['text'], case['codec'])
    msg = bytes.fromhex(case['msg'])
    hdr, total = x690.header_extent(msg)
    out = []
    if 'k' in case and 'tail' not in case:
        k = case['k']
        exp = None if k < hdr else len(msg)
        try:
            got = spec.decode_length(msg[:k])
        except Exception as e:
            return [{'error': common.short_exc(e)}]
        if got != exp:
            out.append({'k': k, 'expected': exp, 'got': got})
    elif 'tail' in case:
        tail = bytes.fromhex(case['tail'])
        try:
            got = spec.decode_with_length(case['type'], msg + tail)
            alone = spec.decode(case['type'], msg)
            if got[1] != len(msg) or repr(got[0]) != repr(alone):
                out.append({'got': repr(got)[:200]})
            if spec.decode_length(msg + tail) != len(msg):
                out.append({'decode_length': spec.decode_length(msg + tail)})
        except Exception as e:
            out.append({'error': common.short_exc(e)})
    return out
