"""C09 - generated UPER C code is equivalent to the Python UPER codec and memory-safe.
See cshared.py (oracle) and vf/cgen (driver generation, clang ASan+UBSan build)."""

from . import cshared
from . import common

ID = 'C09'
CODEC = 'uper'
LEVEL = cshared.LEVEL
RULE = ('generated modules in the documented UPER C subset (BOOLEAN, bounded INTEGER <= 64 bit, NULL, bounded OCTET STRING, fixed '
        'BIT STRING <= 64, ENUMERATED, SEQUENCE with OPTIONAL/DEFAULT, bounded SEQUENCE OF, CHOICE, references across modules, empty '
        'extension markers), every 4th module with one construct outside it (must be refused or translated faithfully) x values x all '
        'destination sizes 0..len x truncated/mutated/random inputs, executed under clang AddressSanitizer+UBSan; distinct by '
        '(type shape, value class)')
ASSUMPTIONS = ['struct members are addressed by the documented naming conventions (vf/cgen/cmap.py); a BIT STRING member is the n-bit '
               'number formed by its bits (what the generated encoder writes)',
               'ASan red zones see accesses outside malloc blocks of the exact input/output size; overflows inside a struct are left to '
               'the field comparison after decode (struct pre-filled with 0xA5)']
REPORT = cshared.REPORT
FLOORS = cshared.floors(CODEC)
TIMEOUT = cshared.TIMEOUT
RLIMIT_AS = -1          # RLIM_INFINITY: the ASan runtime reserves terabytes of shadow address space
shards = cshared.shards


def run_shard(ctx):
    cshared.run_shard_for(ctx, ID, CODEC)


def coverage_extra(agg):
    return {'anchor_reach': common.reach_summary(ID, agg)}


def replay(case):
    return cshared.replay_for(case, ID, CODEC)
