"""C18 - a compiled specification is stateless across calls and threads.

Oracle: every operation's outcome (value, or error class + text) on the shared
Specification must equal the outcome of the same operation made alone on a
freshly compiled one.  Operations are pure, so per-operation comparison is the
linearizability check (any order is legal).  Threads run under a LINE-level
yield injector (sys.monitoring) that forces switches inside asn1tools code and
records the interleavings observed.
"""

import copy
import sys
import threading

from ..asn.gen import Profile
from ..asn import values as V
from .. import core, monitor
from . import common
from .common import GeneratedSpec

ID = 'C18'
LEVEL = 'exploration'
CODECS = ['ber', 'der', 'per', 'uper', 'oer', 'jer', 'xer', 'gser']
RULE = ('generated modules (incl. recursive types and types sharing a referenced sub-type) x 8 codecs; per (module, codec) a pool of '
        'operations: encode of valid / wrongly typed / constraint-violating values, decode of valid / truncated / corrupted / garbage '
        'data; the expected outcome of each operation is computed alone on a freshly compiled Specification; then (a) one sequential '
        'history of <= 50 operations, (b) 2-8 threads running shuffled operation lists concurrently with forced yields on the shared '
        'object; distinct by (codec, op kind, outcome class, type shape, thread count)')
ASSUMPTIONS = ['outcomes are compared as repr(value) or (exception class, str(exception))',
               'the fresh oracle Specification is compiled from a deep copy of the parsed dictionary',
               'thread switches are forced at LINE granularity inside asn1tools (time.sleep(0) from the monitoring callback) and '
               'sys.setswitchinterval(1e-6); the switches observed are reported, not assumed']
REPORT = ['modules', 'evaluations', 'sequential_ops', 'threaded_ops', 'thread_switches_inside_asn1tools',
          'failing_then_valid_adjacencies', 'inputs_checked_unmodified']
FLOORS = {'quick': {'evaluations': 10000, 'threaded_ops': 3000, 'thread_switches_inside_asn1tools': 5000},
          'thorough': {'evaluations': 40000, 'threaded_ops': 12000, 'thread_switches_inside_asn1tools': 20000}}
TIMEOUT = {'quick': 1800, 'thorough': 5400}


def shards(tier):
    return 32 if tier == 'quick' else 64


def params(tier):
    if tier == 'quick':
        return {'modules': 4, 'ops': 36, 'thread_runs': 2}
    return {'modules': 12, 'ops': 50, 'thread_runs': 3}


def profile(tier):
    p = Profile()
    p.p_big_size = 0.0
    p.p_recursive = 0.35
    p.p_ref = 0.4
    return p


WRONG = [None, 5, 'x', b'x', 1.5, [], {}, ('a', 1), True, (b'\x00', 4)]


def outcome(fn):
    import threading
    try:
        if threading.current_thread() is threading.main_thread():
            # wall-clock guard only (a call that does not come back, e.g. the zero-width list finding of C08, would
            # otherwise hold the shard until its watchdog): both sides of a comparison get the same 'hang' outcome
            return ('value', repr(core.guarded(fn, 60)))
        return ('value', repr(fn()))
    except core.CaseTimeout:
        return ('hang',)
    except Exception as e:
        return ('error', type(e).__name__, str(e)[:300])


def make_ops(at, gs, spec, codec, rnd, nops, vg):
    """-> list of (kind, type name, input, description)"""
    ops = []
    types = gs.types()
    if not types:
        return ops
    for _ in range(nops * 2):
        if len(ops) >= nops:
            break
        mod, name, t = rnd.choice(types)
        x = rnd.random()
        try:
            v = vg.value(mod, t)
        except Exception:
            continue
        if x < 0.3:
            ops.append(('encode', name, v, 'valid'))
        elif x < 0.4:
            ops.append(('encode', name, corrupt_value(rnd, v), 'wrong_type'))
        elif x < 0.5:
            ops.append(('encode_cc', name, v, 'constraints_checked'))
        else:
            try:
                enc = bytes(spec.encode(name, v))
            except Exception:
                ops.append(('encode', name, v, 'valid'))
                continue
            if codec == 'gser':
                ops.append(('encode', name, v, 'valid'))
                continue
            y = rnd.random()
            if y < 0.45:
                ops.append(('decode', name, enc, 'valid'))
            elif y < 0.65:
                ops.append(('decode', name, enc[:rnd.randrange(len(enc) + 1)], 'truncated'))
            elif y < 0.85 and enc:
                b = bytearray(enc)
                b[rnd.randrange(len(b))] ^= 1 << rnd.randrange(8)
                ops.append(('decode', name, bytes(b), 'corrupted'))
            else:
                ops.append(('decode', name, bytes(rnd.getrandbits(8) for _ in range(rnd.randint(0, 12))), 'garbage'))
    return ops


def corrupt_value(rnd, v):
    if isinstance(v, dict) and v and rnd.random() < 0.7:
        k = rnd.choice(sorted(v))
        w = dict(v)
        if rnd.random() < 0.3:
            del w[k]
        else:
            w[k] = corrupt_value(rnd, v[k])
        return w
    if isinstance(v, list) and v and rnd.random() < 0.7:
        w = list(v)
        i = rnd.randrange(len(w))
        w[i] = corrupt_value(rnd, w[i])
        return w
    if isinstance(v, tuple) and len(v) == 2 and isinstance(v[0], str) and rnd.random() < 0.7:
        if rnd.random() < 0.3:
            return ('no-such-alternative', v[1])
        return (v[0], corrupt_value(rnd, v[1]))
    cands = [w for w in WRONG if type(w) is not type(v)]
    return rnd.choice(cands)


def run_op(spec, op):
    kind, name, x, _ = op
    if kind == 'encode':
        return outcome(lambda: bytes(spec.encode(name, x)))
    if kind == 'encode_cc':
        return outcome(lambda: bytes(spec.encode(name, x, check_constraints=True)))
    return outcome(lambda: spec.decode(name, x))


def run_shard(ctx):
    at = common.asn1tools()
    reach = common.Reach(ctx)
    st = ctx.stats
    pr = params(ctx.tier)
    prof = profile(ctx.tier)
    rnd = ctx.rnd
    inj = monitor.YieldInjector(every=5)
    stepper = monitor.StepBudget()
    old_si = sys.getswitchinterval()
    for i in range(pr['modules']):
        if not ctx.time_left():
            break
        key = '{}/{}/{}/{}'.format(ctx.seed, ID, ctx.shard, i)
        gs = GeneratedSpec(key, prof)
        st.inc('modules')
        if not gs.legal:
            continue
        try:
            parsed = at.parse_string(gs.text)
        except Exception:
            st.inc('rejected_by_compiler')
            continue
        vg = V.ValueGen(gs.env, gs.rnd, ctx.tier, max_len=30, big_len_p=0.0)
        for codec in CODECS:
            try:
                shared = at.compile_dict(copy.deepcopy(parsed), codec)
            except Exception:
                st.inc('rejected_by_compiler')
                continue
            ops = make_ops(at, gs, shared, codec, rnd, pr['ops'], vg)
            if not ops:
                continue
            # oracle: each op alone on a fresh Specification
            expected = []
            kept = []
            for op in ops:
                fresh = at.compile_dict(copy.deepcopy(parsed), codec)
                # operations that are themselves huge (C08's business) are not used here
                oc, val, steps = stepper.call(lambda: run_op(fresh, op), 150000)
                if oc != 'value':
                    st.inc('op_dropped_over_step_limit')
                    continue
                kept.append(op)
                expected.append(val)
            ops = kept
            if not ops:
                continue
            tsigs = {}

            def report(j, got, nthreads, phase):
                op = ops[j]
                case = {'text': gs.text, 'codec': codec, 'op': [op[0], op[1], core.jsonable(op[2]), op[3]],
                        'threads': nthreads}
                ctx.violation('outcome_differs_from_fresh_specification_' + phase, case,
                              {'op': op[0], 'input_kind': op[3], 'type': op[1], 'expected': repr(expected[j])[:300],
                               'got': repr(got)[:300], 'threads': nthreads})

            # (a) sequential history on the shared object
            order = [rnd.randrange(len(ops)) for _ in range(min(50, len(ops) + 14))]
            prev_failed = False
            for j in order:
                op = ops[j]
                before = repr(op[2])
                keep = copy.deepcopy(op[2])
                got = run_op(shared, op)
                st.inc('evaluations')
                st.inc('sequential_ops')
                st.inc('op:{}:{}'.format(op[0], op[3]))
                if prev_failed and got[0] == 'value':
                    st.inc('failing_then_valid_adjacencies')
                prev_failed = got[0] == 'error'
                if got != expected[j]:
                    report(j, got, 1, 'sequential')
                st.inc('inputs_checked_unmodified')
                if repr(op[2]) != before or repr(keep) != before:
                    ctx.violation('input_object_modified', {'text': gs.text, 'codec': codec,
                                                            'op': [op[0], op[1], core.jsonable(keep), op[3]]},
                                  {'before': before[:300], 'after': repr(op[2])[:300]})
                if op[1] not in tsigs:
                    tsigs[op[1]] = 1
                st.mark((codec, op[0], op[3], got[0], got[1] if got[0] == 'error' else '', op[1], key, 1))
            # (b) threads on the shared object with forced yields
            for run in range(pr['thread_runs']):
                nthreads = rnd.choice([2, 3, 4, 8])
                results = [[] for _ in range(nthreads)]
                plans = []
                for tno in range(nthreads):
                    plan = list(range(len(ops)))
                    rnd.shuffle(plan)
                    plans.append(plan[:max(6, len(ops) // 2)])
                barrier = threading.Barrier(nthreads)

                def work(tno):
                    barrier.wait()
                    for j in plans[tno]:
                        results[tno].append((j, run_op(shared, ops[j])))
                sys.setswitchinterval(1e-6)
                sw0 = inj.switches
                inj.sig = 0
                inj.start()
                try:
                    ths = [threading.Thread(target=work, args=(tno,)) for tno in range(nthreads)]
                    for th in ths:
                        th.start()
                    for th in ths:
                        th.join(120)
                    alive = any(th.is_alive() for th in ths)
                finally:
                    inj.stop()
                    sys.setswitchinterval(old_si)
                if alive:
                    ctx.inconclusive.append('a worker thread did not finish within 120 s')
                    continue
                st.inc('thread_switches_inside_asn1tools', inj.switches - sw0)
                st.add('interleaving_signatures', inj.sig % 100000)
                st.inc('thread_runs')
                for tno in range(nthreads):
                    for j, got in results[tno]:
                        st.inc('evaluations')
                        st.inc('threaded_ops')
                        if got != expected[j]:
                            report(j, got, nthreads, 'threaded')
                        st.mark((codec, ops[j][0], ops[j][3], got[0], ops[j][1], key, nthreads))
            if len(st.samples) < 3:
                st.sample({'codec': codec, 'ops': len(ops), 'example_op': [ops[0][0], ops[0][1], repr(ops[0][2])[:80], ops[0][3]],
                           'expected': repr(expected[0])[:120]})
    inj.close()
    stepper.close()
    reach.close()


def coverage_extra(agg):
    sigs = agg['sets'].get('interleaving_signatures', set())
    return {'anchor_reach': common.reach_summary(ID, agg), 'distinct_interleaving_signatures': len(sigs)}


def replay(case):
    at = common.asn1tools()
    op = (case['op'][0], case['op'][1], core.unjson(case['op'][2]), case['op'][3])
    fresh = at.compile_string(case['text'], case['codec'])
    exp = run_op(fresh, op)
    shared = at.compile_string(case['text'], case['codec'])
    # replay cannot reproduce the history; report only if the op is unstable alone
    got = [run_op(shared, op) for _ in range(3)]
    return [] if all(g == exp for g in got) else [{'expected': exp, 'got': got}]
