"""C12 - ill-typed or out-of-constraint components are rejected with the exact path.

Oracle: a valid value is corrupted in exactly one component at path P (computed on
my AST); encode(check_types=True, check_constraints=True) must raise
asn1tools.EncodeError or asn1tools.ConstraintsError (never bytes, never a foreign
exception) whose text starts with 'Type.member.member: '.
"""

import datetime

from ..asn.gen import Profile
from ..asn.ast import STRING_KINDS, TIME_KINDS, all_comps
from ..asn import values as V
from ..models import constraints as CM
from .. import core
from . import common
from .common import GeneratedSpec

ID = 'C12'
LEVEL = 'exploration'
CODECS = ['ber', 'der', 'per', 'uper', 'oer', 'jer', 'xer', 'gser']
RULE = ('generated modules x valid values x every corruption kind applicable at a sampled component position {wrong Python type (only '
        'substitutions wrong under both the documented mapping and the leniencies of the type checker), unknown CHOICE alternative, '
        'unknown ENUMERATED name/number, missing mandatory member, value just outside an interpreted constraint} x 8 codecs x '
        'numeric_enums; distinct by (corruption kind, node kind, container chain, codec)')
ASSUMPTIONS = ['expected path = type name + member names, list elements unnamed; a type-name hop inserted for recursive types '
               '(an element after the first that starts with an upper-case letter) is forgiven',
               'well-typed values must pass the type check (asserted on every base value)']
REPORT = ['modules', 'evaluations', 'well_typed_accepted', 'kind:wrong_type', 'kind:unknown_choice', 'kind:unknown_enum',
          'kind:missing_member', 'kind:constraint', 'in_addition', 'in_list_element', 'carved_out']
FLOORS = {'quick': {'evaluations': 40000, 'kind:wrong_type': 10000, 'kind:missing_member': 2000, 'kind:unknown_choice': 1000, 'kind:unknown_enum': 500},
          'thorough': {'evaluations': 160000, 'kind:wrong_type': 40000, 'kind:missing_member': 8000, 'kind:unknown_choice': 4000, 'kind:unknown_enum': 2000}}
TIMEOUT = {'quick': 1800, 'thorough': 5400}


def shards(tier):
    return 32 if tier == 'quick' else 64


def params(tier):
    if tier == 'quick':
        return {'modules': 5, 'values': 5, 'positions': 5}
    return {'modules': 15, 'values': 8, 'positions': 8}


def profile(tier):
    p = Profile()
    p.p_big_size = 0.0
    p.p_range = 0.7
    p.p_size = 0.6
    p.p_ext = 0.4
    return p


def wrong_type_values(kind, numeric):
    """Python objects that are of the wrong type for `kind` under the documented mapping AND under the
    leniencies of type_checker.py."""
    if kind == 'BOOLEAN':
        return [1, 'TRUE', None]
    if kind == 'INTEGER':
        return [1.5, b'\x01', None, [1]]
    if kind == 'REAL':
        return ['1.0', None, b'\x00']
    if kind == 'NULL':
        return [0, '']
    if kind == 'BIT STRING':
        return [b'\x00', (b'\x00', 1, 1), ('00', 1), (b'', 1), None]
    if kind == 'OCTET STRING':
        return ['00', 5, None]
    if kind in STRING_KINDS or kind == 'OBJECT IDENTIFIER':
        return [5, b'abc', None]
    if kind == 'ENUMERATED':
        return ['zero'] if numeric else [0, None]
    if kind in ('SEQUENCE', 'SET'):
        return [[], None, 'x']
    if kind in ('SEQUENCE OF', 'SET OF'):
        return [{}, None, 'x']
    if kind == 'CHOICE':
        return [{}, ('a', 1, 2), (1, 'x'), None, 'a']
    if kind in TIME_KINDS:
        return ['20180101000000Z', 5]
    return []


def expected_path(name, path):
    return '.'.join([name] + [p for p in path if isinstance(p, str)])


def normalise_reported(s):
    parts = s.split('.')
    return '.'.join([parts[0]] + [p for p in parts[1:] if not p[:1].isupper()])


def corruptions(env, mod, t, v, rnd, numeric, npos, vg):
    """-> list of (kind, corrupted value, expected path tuple, node kind, container chain)"""
    nodes = list(V.walk(env, mod, t, v))
    rnd.shuffle(nodes)
    out = []
    for r, nv, path in nodes[:npos]:
        k = r.base.kind
        chain = container_chain(env, mod, t, path)
        for w in rnd.sample(wrong_type_values(k, numeric), min(2, len(wrong_type_values(k, numeric)))):
            try:
                out.append(('wrong_type', CM.replace_at(env, mod, t, v, path, w), path, k, chain))
            except Exception:
                pass
        if k == 'CHOICE' and isinstance(nv, tuple):
            out.append(('unknown_choice', CM.replace_at(env, mod, t, v, path, ('no-such-alternative', nv[1])), path, k, chain))
        if k == 'ENUMERATED':
            bad = 987654 if numeric else 'no-such-item'
            out.append(('unknown_enum', CM.replace_at(env, mod, t, v, path, bad), path, k, chain))
        if k in ('SEQUENCE', 'SET') and isinstance(nv, dict):
            mand = [c for c in all_comps(r.base) if not c.optional and not c.has_default and c.name in nv
                    and c not in flat_adds(r.base)]
            if mand:
                c = rnd.choice(mand)
                w = dict(nv)
                del w[c.name]
                out.append(('missing_member', CM.replace_at(env, mod, t, v, path, w), path, k, chain))
    for cand in CM.candidates(env, mod, t, v)[:3]:
        path = cand[0]
        try:
            node = [nv2 for r2, nv2, p2 in V.walk(env, mod, t, v) if p2 == path][0]
            newnode = CM.make_outside(env, rnd, cand, node, vg)
            v2 = CM.replace_at(env, mod, t, v, path, newnode)
            if numeric:
                v2 = V.to_numeric(env, mod, t, v2)
        except Exception:
            continue
        bad = CM.verdict(env, mod, t, v2)
        if len(bad) == 1 and bad[0][0] == path:
            out.append(('constraint', v2, path, cand[1].base.kind, container_chain(env, mod, t, path)))
    return out


def flat_adds(t):
    from ..asn.ast import flat_additions
    return flat_additions(t)


def container_chain(env, mod, t, path):
    """e.g. 'CHOICE>SEQUENCE OF>addition' for the containers above the node."""
    chain = []
    cur_mod, cur_t = mod, t
    for p in path:
        r = env.res(cur_mod, cur_t)
        b = r.base
        if isinstance(p, int):
            chain.append(b.kind)
            cur_mod, cur_t = r.mod, b.elem
        else:
            for c in all_comps(b):
                if c.name == p:
                    chain.append(b.kind + ('+addition' if c in flat_adds(b) else ''))
                    cur_mod, cur_t = r.mod, c.t
                    break
    return '>'.join(chain[-3:])


def run_shard(ctx):
    at = common.asn1tools()
    reach = common.Reach(ctx)
    st = ctx.stats
    pr = params(ctx.tier)
    prof = profile(ctx.tier)
    from .. import carve
    for i in range(pr['modules']):
        if not ctx.time_left():
            break
        key = '{}/{}/{}/{}'.format(ctx.seed, ID, ctx.shard, i)
        gs = GeneratedSpec(key, prof)
        st.inc('modules')
        if not gs.legal:
            continue
        vg = V.ValueGen(gs.env, gs.rnd, ctx.tier, max_len=16, big_len_p=0.0)
        for numeric in ((False, True) if gs.has_enum and gs.rnd.random() < 0.5 else (False,)):
            specs = {}
            for codec in CODECS:
                s = gs.compiled(codec, numeric)
                if isinstance(s, Exception):
                    st.inc('rejected_by_compiler')
                else:
                    specs[codec] = s
            for mod, name, t in gs.types():
                for _ in range(pr['values']):
                    v0 = vg.value(mod, t)
                    v = V.to_numeric(gs.env, mod, t, v0) if numeric else v0
                    if carve.carved(ID, ctx.active, gs.env, mod, t, v0, 'ber'):
                        st.inc('carved_out')
                        continue
                    # well-typed values are never rejected by the type check
                    any_spec = next(iter(specs.values()), None)
                    if any_spec is None:
                        continue
                    try:
                        any_spec.types[name].check_types(v)
                        st.inc('well_typed_accepted')
                    except Exception as e:
                        ctx.violation('well_typed_value_rejected_by_type_check',
                                      {'text': gs.text, 'type': name, 'codec': 'ber', 'numeric': numeric, 'value': core.jsonable(v),
                                       'kind': 'well_typed', 'path': []}, {'error': common.short_exc(e)})
                        continue
                    usable = {}
                    for codec, spec in specs.items():
                        try:
                            spec.encode(name, v, check_types=True, check_constraints=True)
                            usable[codec] = spec
                        except Exception:
                            st.inc('base_value_not_encodable')      # C01 / C02 / C20 business
                    for kind, bad, path, nk, chain in corruptions(gs.env, mod, t, v, gs.rnd, numeric, pr['positions'], vg):
                        exp = expected_path(name, path)
                        for codec, spec in usable.items():
                            if carve.carved(ID, ctx.active, gs.env, mod, t, (kind, path), codec + ':' + kind):
                                st.inc('carved_out')
                                continue
                            st.inc('evaluations')
                            st.inc('kind:' + kind)
                            if 'addition' in chain:
                                st.inc('in_addition')
                            if any(isinstance(p, int) for p in path):
                                st.inc('in_list_element')
                            case = {'text': gs.text, 'type': name, 'codec': codec, 'numeric': numeric,
                                    'value': core.jsonable(bad), 'kind': kind, 'path': [p for p in path]}
                            detail = {'corruption': kind, 'node_kind': nk, 'containers': chain, 'expected_path': exp, 'codec': codec}
                            try:
                                enc = spec.encode(name, bad, check_types=True, check_constraints=True)
                                ctx.violation('corrupted_value_encoded', case, dict(detail, encoded=bytes(enc).hex()[:60]))
                                continue
                            except (at.EncodeError, at.ConstraintsError) as e:
                                msg = str(e)
                            except NotImplementedError:
                                st.inc('declared_unsupported')
                                continue
                            except Exception as e:
                                ctx.violation('foreign_exception_for_corrupted_value', case, dict(detail, error=common.short_exc(e)))
                                continue
                            if ': ' not in msg:
                                ctx.violation('error_without_path', case, dict(detail, message=msg[:200]))
                                continue
                            reported = msg.split(': ', 1)[0]
                            if normalise_reported(reported) != exp:
                                ctx.violation('error_path_wrong', case, dict(detail, reported=reported, message=msg[:160]))
                                continue
                            st.mark((kind, nk, chain, codec))
                        if len(st.samples) < 4:
                            st.sample({'corruption': kind, 'type': name, 'expected_path': exp, 'bad_value': repr(bad)[:120]})
    reach.close()


def coverage_extra(agg):
    return {'anchor_reach': common.reach_summary(ID, agg)}


def replay(case):
    at = common.asn1tools()
    spec = at.compile_string(case['text'], case['codec'], numeric_enums=case['numeric'])
    v = core.unjson(case['value'])
    exp = expected_path(case['type'], case['path'])
    if case['kind'] == 'well_typed':
        try:
            spec.types[case['type']].check_types(v)
            return []
        except Exception as e:
            return [{'error': common.short_exc(e)}]
    try:
        spec.encode(case['type'], v, check_types=True, check_constraints=True)
        return [{'encoded': True}]
    except (at.EncodeError, at.ConstraintsError) as e:
        msg = str(e)
        if ': ' not in msg or normalise_reported(msg.split(': ', 1)[0]) != exp:
            return [{'message': msg[:200], 'expected_path': exp}]
        return []
    except NotImplementedError:
        return []
    except Exception as e:
        return [{'error': common.short_exc(e)}]
