"""Helpers shared by the checks."""

import random

from ..asn.ast import Env, all_comps, STRING_KINDS, TIME_KINDS
from ..asn.gen import Gen, Profile, is_legal
from ..asn.text import spec_text
from ..asn import values as V
from .. import core

BINARY = ['ber', 'der', 'per', 'uper', 'oer']
TEXTC = ['jer', 'xer', 'gser']


def asn1tools():
    core.setup_path()
    import asn1tools
    return asn1tools


class GeneratedSpec(object):
    """A generated specification: my AST, its text, and per-codec compiled objects."""

    def __init__(self, key, profile):
        self.key = key
        rnd = random.Random(key)
        self.rnd = rnd
        import os
        if os.environ.get('VF_PROFILE') == 'flat':        # development aid: top-level primitive types only
            import copy
            profile = copy.deepcopy(profile)
            profile.p_constructed_top = 0.0
            profile.n_types = (8, 12)
            profile.p_type_tag = 0.0
        g = Gen(rnd, profile)
        self.spec = g.spec()
        self.features = g.features
        self.env = Env(self.spec)
        self.text = spec_text(self.spec)
        self.legal = is_legal(self.spec)
        self._compiled = {}
        self.has_enum = 'ENUMERATED' in self.text

    def types(self):
        """[(Module, name, T)] for every type assignment whose name is unique."""
        out = []
        seen = {}
        for m in self.spec.modules:
            for name, t in m.types():
                seen[name] = seen.get(name, 0) + 1
        for m in self.spec.modules:
            for name, t in m.types():
                if seen[name] == 1:
                    out.append((m, name, t))
        return out

    def compiled(self, codec, numeric=False):
        k = (codec, numeric)
        if k not in self._compiled:
            at = asn1tools()
            try:
                self._compiled[k] = at.compile_string(self.text, codec, numeric_enums=numeric)
            except Exception as e:
                # a module the compiler does not accept is outside every
                # "for every specification the compiler accepts" quantifier
                self._compiled[k] = e
        return self._compiled[k]


def cons_sig(r):
    s = ''
    if r.rng is not None:
        w = None if r.rng.lo is None or r.rng.hi is None else r.rng.hi - r.rng.lo + 1
        wc = 'u' if w is None else ('1' if w == 1 else 'b' if w <= 255 else 'o' if w == 256 else
                                    'w' if w <= 65536 else 'L')
        s += '(r{}{}{})'.format(wc, 'n' if (r.rng.lo or 0) < 0 else '', 'x' if r.rng.ext else '')
    if r.size is not None:
        if r.size.hi is None:
            sc = 'u'
        elif r.size.lo == r.size.hi:
            sc = 'f' + ('0' if r.size.hi == 0 else 's' if r.size.hi <= 2 else 'm' if r.size.hi < 65536 else 'L')
        else:
            sc = 'v' + ('s' if r.size.hi < 65536 else 'L')
        s += '(s{}{})'.format(sc, 'x' if r.size.ext else '')
    if r.alpha is not None:
        s += '(a{}{})'.format(len(r.alpha.chars()).bit_length(), 'x' if r.alpha.ext else '')
    return s


def type_sig(env, mod, t, depth=3, seen=None):
    """Shape signature of a type (kinds, constraint classes, optionality)."""
    if seen is None:
        seen = ()
    r = env.res(mod, t)
    b = r.base
    k = b.kind
    tagged = 't' if r.tags else ''
    short = {'SEQUENCE': 'SEQ', 'SET': 'SET', 'CHOICE': 'CH', 'SEQUENCE OF': 'SOF', 'SET OF': 'STOF',
             'INTEGER': 'I', 'BOOLEAN': 'B', 'ENUMERATED': 'E', 'REAL': 'R', 'NULL': 'N',
             'BIT STRING': 'BS', 'OCTET STRING': 'OS', 'OBJECT IDENTIFIER': 'OID'}.get(k, k[:4])
    s = tagged + short + cons_sig(r)
    if k == 'ENUMERATED':
        s += str(len(b.enum_root)) + ('x' if b.enum_ext is not None else '')
    if k == 'BIT STRING' and b.named_bits:
        s += 'n'
    if k == 'REAL' and b.real_fmt:
        s += b.real_fmt[-2:]
    if id(b) in seen or depth == 0:
        return s + '^'
    seen = seen + (id(b),)
    if k in ('SEQUENCE', 'SET', 'CHOICE'):
        parts = []
        for c in (b.comps or []):
            parts.append(type_sig(env, r.mod, c.t, depth - 1, seen) +
                         ('?' if c.optional else '=' if c.has_default else ''))
        if b.ext is not None or r.mod.ext_implied:
            parts.append('...')
            for a in (b.ext or []):
                if hasattr(a, 'comps'):
                    parts.append('[[' + ','.join(type_sig(env, r.mod, c.t, depth - 1, seen) for c in a.comps) + ']]')
                else:
                    parts.append(type_sig(env, r.mod, a.t, depth - 1, seen))
        for c in (b.comps2 or []):
            parts.append(type_sig(env, r.mod, c.t, depth - 1, seen))
        s += '{' + ','.join(parts) + '}'
    elif k in ('SEQUENCE OF', 'SET OF'):
        s += '<' + type_sig(env, r.mod, b.elem, depth - 1, seen) + '>'
    return s


def value_sig(v, depth=3):
    """Coarse class of a value: magnitude / length buckets and presence pattern."""
    if isinstance(v, bool):
        return 'T' if v else 'F'
    if isinstance(v, int):
        n = v.bit_length()
        return ('-' if v < 0 else '') + 'i' + str(n if n <= 9 else 8 * ((n + 7) // 8))
    if isinstance(v, float):
        if v != v:
            return 'nan'
        if v in (float('inf'), float('-inf')):
            return 'inf'
        if v == 0:
            return 'f0'
        import math
        return 'f' + str(math.frexp(v)[1] // 64)
    if v is None:
        return 'N'
    if isinstance(v, (bytes, bytearray, str)):
        n = len(v)
        b = n if n < 4 else 4 if n < 16 else 16 if n < 128 else 128 if n < 256 else 256 if n < 16384 else 16384 if n < 65536 else 65536
        na = ''
        if isinstance(v, str) and any(ord(ch) > 127 for ch in v):
            na = 'u'
        return 's{}{}'.format(b, na)
    if depth == 0:
        return '.'
    if isinstance(v, tuple):
        return '(' + ','.join(value_sig(x, depth - 1) for x in v) + ')'
    if isinstance(v, list):
        n = len(v)
        b = n if n < 4 else 4 if n < 16 else 16 if n < 128 else 128
        return '[{}{}]'.format(b, ':' + value_sig(v[0], depth - 1) if v else '')
    if isinstance(v, dict):
        return '{' + ','.join('{}:{}'.format(k[:2], value_sig(x, depth - 1)) for k, x in sorted(v.items())) + '}'
    return type(v).__name__


def is_trivial_type(env, mod, t):
    r = env.res(mod, t)
    return r.base.kind in ('BOOLEAN', 'NULL')


def exc_class(at, e):
    """library / unsupported / foreign"""
    if isinstance(e, at.Error):
        return 'library'
    if isinstance(e, NotImplementedError):
        return 'unsupported'
    return 'foreign'


def short_exc(e):
    return '{}: {}'.format(type(e).__name__, str(e)[:200])


class Reach(object):
    """Anchor line reach for a worker; lines are merged across shards."""

    def __init__(self, ctx):
        from .. import monitor
        self.lr = monitor.LineReach()
        self.ctx = ctx

    def close(self):
        self.lr.stop()
        for f, l in self.lr.hits:
            self.ctx.stats.add('lines', '{}:{}'.format(f, l))


def reach_summary(prop_id, agg):
    from .. import monitor
    hits = []
    for s in agg['sets'].get('lines', []):
        f, l = s.rsplit(':', 1)
        hits.append((f, int(l)))
    agg['sets'].pop('lines', None)
    return monitor.anchor_reach(prop_id, hits)
