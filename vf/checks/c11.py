"""C11 - check_constraints accepts exactly the values the declared constraints admit.

Oracle: vf/models/constraints.py interprets the constraints of my AST.  Valid values
(incl. values at both bounds and out-of-root values of extensible constraints) must
be accepted; a value with exactly one node pushed just outside one interpreted
constraint must raise asn1tools.ConstraintsError on encode, and on decode of bytes
obtained with checking off.
"""

from ..asn.gen import Profile
from ..asn import values as V
from ..models import constraints as CM
from .. import core
from . import common
from .common import GeneratedSpec

ID = 'C11'
LEVEL = 'exploration'
ENC_CODECS = ['ber', 'uper', 'jer', 'oer']
DEC_CODECS = ['ber', 'der', 'jer', 'xer', 'oer']
RULE = ('generated modules with single value / single range / MIN / MAX / named-number / value-reference bounds, SIZE and FROM '
        'constraints (also reached through type references and re-constrained references, extensible ones) x valid values at, just '
        'inside and (for extensible constraints) outside the bounds, which must be accepted, and single-node perturbations just outside '
        'one interpreted constraint, which must raise ConstraintsError on encode (4 codecs) and on decode with checking (5 codecs); '
        'distinct by (constraint kind, side, bound source, via reference, node kind, codec)')
ASSUMPTIONS = ['inherent alphabets of the string types are respected by the generator (not part of the iff)',
               'named-bit BIT STRING sizes and extensible constraints stacked on constrained references are not probed (DESIGN C11)']
REPORT = ['modules', 'evaluations', 'accept_probes', 'reject_probes_encode', 'reject_probes_decode', 'silently_on_wire',
          'bound:reference', 'bound:literal', 'via_typeref', 'out_of_root_accepted', 'carved_out']
FLOORS = {'quick': {'accept_probes': 10000, 'reject_probes_encode': 5000, 'reject_probes_decode': 1500},
          'thorough': {'accept_probes': 40000, 'reject_probes_encode': 20000, 'reject_probes_decode': 6000}}
TIMEOUT = {'quick': 1800, 'thorough': 5400}


def shards(tier):
    return 32 if tier == 'quick' else 64


def params(tier):
    if tier == 'quick':
        return {'modules': 6, 'values': 8, 'perturb': 4}
    return {'modules': 18, 'values': 12, 'perturb': 6}


def profile(tier):
    p = Profile()
    p.p_big_size = 0.0
    p.p_range = 0.8
    p.p_size = 0.7
    p.p_alpha = 0.45
    p.p_bound_ref = 0.4
    p.p_minmax = 0.15
    p.p_named = 0.5
    p.p_ref = 0.35
    p.p_reconstrain = 0.5
    return p


def run_shard(ctx):
    at = common.asn1tools()
    reach = common.Reach(ctx)
    st = ctx.stats
    pr = params(ctx.tier)
    prof = profile(ctx.tier)
    from .. import carve
    for i in range(pr['modules']):
        if not ctx.time_left():
            break
        key = '{}/{}/{}/{}'.format(ctx.seed, ID, ctx.shard, i)
        gs = GeneratedSpec(key, prof)
        st.inc('modules')
        if not gs.legal:
            continue
        vg = V.ValueGen(gs.env, gs.rnd, ctx.tier, max_len=24, big_len_p=0.0, out_of_root_p=0.3)
        specs = {}
        for codec in set(ENC_CODECS + DEC_CODECS):
            s = gs.compiled(codec)
            if not isinstance(s, Exception):
                specs[codec] = s
            else:
                st.inc('rejected_by_compiler')
        if not specs:
            continue
        for mod, name, t in gs.types():
            for _ in range(pr['values']):
                v = vg.value(mod, t)
                if CM.verdict(gs.env, mod, t, v):
                    st.inc('generator_value_outside_own_model')     # should not happen
                    continue
                if carve.carved(ID, ctx.active, gs.env, mod, t, v, 'ber'):
                    st.inc('carved_out')
                    continue
                oor = any(r.rng is not None and r.rng.ext and isinstance(nv, int) and not r.rng.contains(nv)
                          for r, nv, p in V.walk(gs.env, mod, t, v) if r.base.kind == 'INTEGER')
                # ---- acceptance
                for codec in ENC_CODECS:
                    spec = specs.get(codec)
                    if spec is None:
                        continue
                    st.inc('evaluations')
                    st.inc('accept_probes')
                    case = {'key': key, 'text': gs.text, 'type': name, 'codec': codec, 'value': core.jsonable(v), 'expect': 'accept'}
                    try:
                        spec.encode(name, v, check_constraints=True)
                        if oor:
                            st.inc('out_of_root_accepted')
                    except at.ConstraintsError as e:
                        ctx.violation('valid_value_rejected_by_constraints_check', case, {'error': common.short_exc(e)})
                        break
                    except Exception:
                        st.inc('encode_failed_otherwise')        # C01 / C12 business
                    st.mark(('accept', codec, common.type_sig(gs.env, mod, t)[:80]))
                # ---- single-node perturbations
                cands = CM.candidates(gs.env, mod, t, v)
                gs.rnd.shuffle(cands)
                for cand in cands[:pr['perturb']]:
                    path, r, what, side, src, via = cand
                    node = v
                    try:
                        for r2, nv2, p2 in V.walk(gs.env, mod, t, v):
                            if p2 == path:
                                node = nv2
                                break
                        newnode = CM.make_outside(gs.env, gs.rnd, cand, node, vg)
                        v2 = CM.replace_at(gs.env, mod, t, v, path, newnode)
                    except Exception as e:
                        st.inc('perturbation_failed')
                        continue
                    bad = CM.verdict(gs.env, mod, t, v2)
                    if [b for b in bad if b[0] == path] == [] or any(b[0] != path for b in bad):
                        st.inc('perturbation_not_single')
                        continue
                    st.inc('bound:' + src)
                    if via == 'via_typeref':
                        st.inc('via_typeref')
                    for codec in ENC_CODECS:
                        spec = specs.get(codec)
                        if spec is None:
                            continue
                        st.inc('evaluations')
                        st.inc('reject_probes_encode')
                        st.inc('probe:{}:{}'.format(what, side))
                        case = {'key': key, 'text': gs.text, 'type': name, 'codec': codec, 'value': core.jsonable(v2),
                                'expect': 'reject', 'path': list(path)}
                        detail = {'constraint': what, 'side': side, 'bound': src, 'node_kind': r.base.kind,
                                  'path': '.'.join(str(x) for x in path), 'node_value': repr(newnode)[:80]}
                        try:
                            enc = spec.encode(name, v2, check_constraints=True)
                            st.inc('silently_on_wire')
                            ctx.violation('out_of_constraint_value_reaches_the_wire', case, dict(detail, encoded=bytes(enc).hex()[:80]))
                        except at.ConstraintsError:
                            pass
                        except NotImplementedError:
                            st.inc('declared_unsupported')
                        except Exception as e:
                            ctx.violation('out_of_constraint_value_raises_other_error', case, dict(detail, error=common.short_exc(e)))
                        st.mark(('reject', what, side, src, via, r.base.kind, codec))
                    for codec in DEC_CODECS:
                        spec = specs.get(codec)
                        if spec is None:
                            continue
                        try:
                            enc = bytes(spec.encode(name, v2, check_constraints=False))
                            back = core.guarded(lambda: spec.decode(name, enc), 20)
                        except core.CaseTimeout:
                            # an out-of-range value written without checking can come back as a huge quantity of
                            # zero-width list elements: termination is C08's business (known finding there)
                            st.inc('decode_probe_does_not_terminate_in_20s')
                            continue
                        except Exception:
                            st.inc('decode_probe_not_encodable')
                            continue
                        if V.canon(gs.env, mod, t, back) != V.canon(gs.env, mod, t, v2):
                            st.inc('decode_probe_not_roundtripping')
                            continue
                        st.inc('evaluations')
                        st.inc('reject_probes_decode')
                        case = {'key': key, 'text': gs.text, 'type': name, 'codec': codec, 'value': core.jsonable(v2),
                                'expect': 'reject_decode', 'path': list(path)}
                        try:
                            core.guarded(lambda: spec.decode(name, enc, check_constraints=True), 60)
                            ctx.violation('out_of_constraint_value_accepted_by_decode', case,
                                          {'constraint': what, 'side': side, 'node_kind': r.base.kind,
                                           'path': '.'.join(str(x) for x in path)})
                        except at.ConstraintsError:
                            pass
                        except core.CaseTimeout:
                            st.inc('decode_probe_does_not_terminate_in_20s')
                        except Exception as e:
                            ctx.violation('decode_with_check_raises_other_error', case, {'error': common.short_exc(e)})
                    if len(st.samples) < 3:
                        st.sample({'type': name, 'constraint': what, 'side': side, 'path': '.'.join(str(x) for x in path),
                                   'outside_value': repr(newnode)[:60], 'raises': 'ConstraintsError'})
    reach.close()


def coverage_extra(agg):
    return {'anchor_reach': common.reach_summary(ID, agg)}


def replay(case):
    at = common.asn1tools()
    spec = at.compile_string(case['text'], case['codec'])
    v = core.unjson(case['value'])
    if case['expect'] == 'accept':
        try:
            spec.encode(case['type'], v, check_constraints=True)
        except at.ConstraintsError as e:
            return [{'error': common.short_exc(e)}]
        except Exception:
            pass
        return []
    if case['expect'] == 'reject':
        try:
            spec.encode(case['type'], v, check_constraints=True)
            return [{'reached_the_wire': True}]
        except at.ConstraintsError:
            return []
        except NotImplementedError:
            return []
        except Exception as e:
            return [{'error': common.short_exc(e)}]
    try:
        enc = spec.encode(case['type'], v, check_constraints=False)
        spec.decode(case['type'], enc, check_constraints=True)
        return [{'accepted_by_decode': True}]
    except at.ConstraintsError:
        return []
    except Exception as e:
        return [{'error': common.short_exc(e)}]
