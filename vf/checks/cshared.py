"""Shared implementation of C09 (UPER) and C10 (OER): generated C == Python codec, memory-safe.

Per generated module (documented C subset, or a probe module with one construct outside
it): asn1tools.source.c.generate -> gcc -std=c99 gate -> clang ASan+UBSan executable
with a driver generated from my AST (vf/cgen) -> run on
  * cases: value -> struct -> *_encode == Python bytes; every smaller destination
    refused; Python bytes -> *_decode -> every field/presence flag/length/selector
    compared with the value (struct pre-filled with 0xA5);
  * corpus: V lines (valid Python encodings: decode consumes all, decode+encode is the
    identity), H lines (all truncations, bit flips, byte overwrites, insertions,
    random bytes; from exact-size malloc'ed copies): no ASan/UBSan report; anything
    accepted re-encodes, re-decodes to an identical struct and re-encodes identically;
  * C10 only, X cases: Python encodings of a newer version (V2 = V1 + extension
    additions) decoded by C generated from V1: consumed completely, V1 view equal.
"""

import os
import copy
import shutil
import tempfile

from ..asn.gen import Profile, is_legal
from ..asn.ast import T, Comp, Range, Env, all_comps, flat_additions, Group
from ..asn.text import spec_text
from ..asn import values as V
from ..cgen import cmap, build
from .. import core
from . import common
from .common import GeneratedSpec

LEVEL = 'exploration'
REPORT = ['modules', 'programs_built', 'evaluations', 'cases_run', 'encode_comparisons', 'too_small_destinations_tried',
          'decode_comparisons', 'field_checks', 'corpus_inputs', 'corpus_valid', 'corpus_hostile_accepted', 'sanitizer_reports',
          'generator_rejected', 'generator_rejected_probe', 'probe_modules_accepted', 'gcc_warnings', 'newer_version_cases',
          'modules_with_eight_additions']
TIMEOUT = {'quick': 2400, 'thorough': 5400}


def floors(codec):
    return {'quick': {'programs_built': 40, 'encode_comparisons': 1500, 'decode_comparisons': 1500, 'corpus_inputs': 40000,
                      'too_small_destinations_tried': 5000},
            'thorough': {'programs_built': 160, 'encode_comparisons': 6000, 'decode_comparisons': 6000, 'corpus_inputs': 160000,
                         'too_small_destinations_tried': 20000}}


def shards(tier):
    return 32 if tier == 'quick' else 64


def params(tier):
    if tier == 'quick':
        return {'modules': 3, 'values': 12, 'hostile': 250}
    return {'modules': 9, 'values': 18, 'hostile': 375}


def profile(codec, probe=None):
    p = Profile()
    prims = ['BOOLEAN', 'INTEGER', 'NULL', 'OCTET STRING', 'BIT STRING', 'ENUMERATED']
    if codec == 'oer':
        prims.append('REAL')
    p.only(prims=prims, constr=['SEQUENCE', 'SEQUENCE OF', 'CHOICE'])
    p.prims['INTEGER'] = 3.0
    p.bounded_only = True
    p.real_fmt = True
    p.p_reconstrain = 0.0
    p.p_recursive = 0.0
    p.p_twin_member = 0.1
    p.size_on_ref = False          # SIZE re-constraints on references are not part of the documented subset
    p.p_enum_ext = 0.0
    p.p_group = 0.0
    p.p_ext_implied = 0.0
    p.p_multi_module = 0.3
    p.p_components_of = 0.0
    p.p_big_size = 0.0
    p.default_kinds = {'BOOLEAN', 'INTEGER', 'ENUMERATED', 'OCTET STRING'}
    p.max_comps = 5
    if codec == 'uper':
        p.p_ext = 0.15
        p.p_empty_additions = 1.0      # only empty extension markers are in the documented UPER subset
    else:
        p.p_ext = 0.35
        p.p_empty_additions = 0.3
    return p


# ---- probes: one construct outside the documented subset appended to a subset module --------------------
PROBES = {
    'uper': ['R ::= SEQUENCE { a BOOLEAN, r REAL, b INTEGER (0..7) }',
             'E ::= SEQUENCE { e ENUMERATED { a, b, ..., c }, b INTEGER (0..7) }',
             'I ::= SEQUENCE { a INTEGER, b BOOLEAN }',
             'X ::= SEQUENCE { a BOOLEAN, ..., b INTEGER (0..7) }',
             'S ::= SEQUENCE { s UTF8String (SIZE (0..5)), b BOOLEAN }',
             'B ::= SEQUENCE { s BIT STRING (SIZE (1..5)), b BOOLEAN }',
             'O ::= SEQUENCE { s OCTET STRING, b BOOLEAN }',
             'C ::= CHOICE { a BOOLEAN, ..., b INTEGER (0..7) }',
             'L ::= SEQUENCE OF INTEGER (0..7)',
             'W ::= SEQUENCE { i INTEGER (0..18446744073709551616) }',
             'T ::= SET { a BOOLEAN, b INTEGER (0..7) }',
             'V ::= SEQUENCE { i INTEGER (0..7, ...), b BOOLEAN }',
             'Z ::= SEQUENCE { o OCTET STRING (SIZE (0..3, ...)), b BOOLEAN }'],
    'oer': ['R ::= SEQUENCE { a BOOLEAN, r REAL, b INTEGER (0..7) }',
            'I ::= SEQUENCE { a INTEGER, b BOOLEAN }',
            'S ::= SEQUENCE { s UTF8String (SIZE (0..5)), b BOOLEAN }',
            'B ::= SEQUENCE { s BIT STRING (SIZE (1..5)), b BOOLEAN }',
            'O ::= SEQUENCE { s OCTET STRING, b BOOLEAN }',
            'C ::= CHOICE { a BOOLEAN, ..., b INTEGER (0..7) }',
            'L ::= SEQUENCE OF INTEGER (0..7)',
            'W ::= SEQUENCE { i INTEGER (0..18446744073709551616) }',
            'T ::= SET { a BOOLEAN, b INTEGER (0..7) }',
            'V ::= SEQUENCE { i INTEGER (0..7, ...), b BOOLEAN }',
            'G ::= SEQUENCE { a BOOLEAN, ..., [[ b INTEGER (0..7), c BOOLEAN OPTIONAL ]] }',
            'E ::= SEQUENCE { e ENUMERATED { a, b, ..., c(300) }, b INTEGER (0..7) }'],
}
PROBE_VALUES = {
    'R': [{'a': True, 'r': 1.5, 'b': 3}], 'E': [{'e': 'b', 'b': 5}, {'e': 'c', 'b': 5}], 'I': [{'a': 70000, 'b': True}, {'a': -3, 'b': False}],
    'X': [{'a': True}, {'a': False, 'b': 6}], 'S': [{'s': 'abc', 'b': True}], 'B': [{'s': (b'\xa0', 3), 'b': True}],
    'O': [{'s': b'\x01\x02\x03', 'b': True}], 'C': [('a', True), ('b', 5)], 'L': [[1, 2, 3], []], 'W': [{'i': 18446744073709551616}, {'i': 5}],
    'T': [{'a': True, 'b': 2}], 'V': [{'i': 3, 'b': True}, {'i': 100, 'b': True}], 'Z': [{'o': b'\x01', 'b': True}, {'o': b'\x01\x02\x03\x04\x05', 'b': True}],
    'G': [{'a': True}, {'a': True, 'b': 3}, {'a': True, 'b': 3, 'c': False}],
}


def mutate(rnd, data):
    data = bytearray(data)
    x = rnd.random()
    if x < 0.3 and data:
        i = rnd.randrange(len(data))
        data[i] ^= 1 << rnd.randrange(8)
    elif x < 0.5 and data:
        i = rnd.randrange(len(data))
        data[i] = rnd.choice([0, 0xff, 0x80, 0x7f, 0x81, rnd.randrange(256)])
    elif x < 0.65:
        i = rnd.randrange(len(data) + 1)
        data[i:i] = bytes(rnd.randrange(256) for _ in range(rnd.randint(1, 4)))
    elif x < 0.8 and len(data) > 1:
        i = rnd.randrange(len(data))
        del data[i:i + rnd.randint(1, 3)]
    elif x < 0.9 and data:
        for _ in range(rnd.randint(2, 5)):
            data[rnd.randrange(len(data))] = rnd.randrange(256)
    else:
        data += bytes(rnd.randrange(256) for _ in range(rnd.randint(1, 6)))
    return bytes(data)


def evolve_additions(spec, rnd, known_only=False):
    """V2 = V1 + 1..3 extension additions (C-subset types) in extensible SEQUENCEs; -> V2 spec or None."""
    s2 = copy.deepcopy(spec)
    nodes = []

    def walk(t):
        if t.kind == 'SEQUENCE' and t.ext is not None and not t.comps2:
            nodes.append(t)
        for c in all_comps(t) if t.kind in ('SEQUENCE', 'CHOICE') else []:
            walk(c.t)
        if t.kind == 'SEQUENCE OF':
            walk(t.elem)
    for m in s2.modules:
        for name, t in m.types():
            walk(t)
    if known_only:
        nodes = [t for t in nodes if flat_additions(t)]
    if not nodes:
        return None
    n = 0
    for _ in range(rnd.randint(1, 3)):
        node = rnd.choice(nodes)
        if any(c.t.tag is not None for c in all_comps(node)):
            continue
        n += 1
        ct = rnd.choice([T('BOOLEAN'), T('INTEGER', rng=Range(0, 255)), T('INTEGER', rng=Range(-5, 70000)), T('NULL'),
                         T('OCTET STRING', size=Range(0, 300)), T('SEQUENCE', comps=[Comp('p', T('BOOLEAN')), Comp('q', T('INTEGER', rng=Range(0, 65535)))])])
        node.ext.append(Comp('zz{}'.format(n), ct, optional=rnd.random() < 0.5))
    if n == 0:
        return None
    return s2


PRIMITIVE_INLINE = ('BOOLEAN', 'INTEGER', 'REAL', 'NULL', 'OCTET STRING')


def simplify_additions(gs, allowed):
    """Replace the type of every extension addition that is not a primitive inline type by a primitive one
    (in place; text/env of gs are rebuilt). -> number of replacements"""
    count = [0]
    rnd = core.random.Random(gs.key + '/simplify')

    def walk(t):
        if t.kind == 'SEQUENCE':
            for c in flat_additions(t):
                if (c.t.kind not in allowed) if allowed is not None else (c.t.kind == 'BIT STRING'):
                    c.t = rnd.choice([T('BOOLEAN'), T('INTEGER', rng=Range(0, 255)), T('INTEGER', rng=Range(-70000, 70000)),
                                      T('OCTET STRING', size=Range(0, 5))])
                    from ..asn.ast import NODEFAULT
                    c.default = NODEFAULT
                    c.default_txt = None
                    count[0] += 1
        if t.kind in ('SEQUENCE', 'CHOICE'):
            for c in all_comps(t):
                walk(c.t)
        elif t.kind == 'SEQUENCE OF':
            walk(t.elem)
    for m in gs.spec.modules:
        for name, t in m.types():
            walk(t)
    if count[0]:
        gs.text = spec_text(gs.spec)
        gs.env = Env(gs.spec)
        gs.legal = is_legal(gs.spec)
        gs._compiled = {}
    return count[0]


def add_same_name_defaults(gs):
    """Append a type in which members with the same identifier and DEFAULTs of the same kind sit at different
    levels (the generated encoder/decoder keeps one constant per DEFAULT in one C function)."""
    from ..asn.ast import Assign
    rnd = core.random.Random(gs.key + '/dup')
    m = gs.spec.modules[-1]
    if m.find('Zdup') is not None:
        return False

    def octets():
        n = rnd.randint(1, 3)
        v = bytes(rnd.getrandbits(8) for _ in range(n))
        return Comp('dup', T('OCTET STRING', size=Range(0, 3)), default=v, default_txt="'" + v.hex().upper() + "'H")

    def integer():
        v = rnd.randint(0, 9)
        return Comp('num', T('INTEGER', rng=Range(0, 9)), default=v, default_txt=str(v))
    inner = T('SEQUENCE', comps=[octets(), integer(), Comp('k', T('BOOLEAN'))])
    inner2 = T('SEQUENCE', comps=[Comp('k', T('BOOLEAN')), octets()])
    t = T('SEQUENCE', comps=[Comp('first', inner), octets(), integer(), Comp('second', inner2, optional=True)])
    m.assigns.append(Assign('type', 'Zdup', t))
    gs.text = spec_text(gs.spec)
    gs.env = Env(gs.spec)
    gs.legal = is_legal(gs.spec)
    gs._compiled = {}
    return True


def pad_additions(gs, n):
    """Give one extensible SEQUENCE (without manual tags, no second root list) exactly n additions. -> bool"""
    rnd = core.random.Random(gs.key + '/pad')
    nodes = []

    def walk(t):
        if (t.kind == 'SEQUENCE' and t.ext is not None and not t.comps2 and len(flat_additions(t)) <= n
                and not any(isinstance(a, Group) for a in t.ext) and not any(c.t.tag is not None for c in all_comps(t))):
            nodes.append(t)
        if t.kind in ('SEQUENCE', 'CHOICE'):
            for c in all_comps(t):
                walk(c.t)
        elif t.kind == 'SEQUENCE OF':
            walk(t.elem)
    for m in gs.spec.modules:
        for name, t in m.types():
            walk(t)
    if not nodes:
        return False
    node = rnd.choice(nodes)
    names = set(c.name for c in all_comps(node))
    k = 0
    while len(flat_additions(node)) < n:
        k += 1
        nm = 'pad{}'.format(k)
        if nm in names:
            continue
        node.ext.append(Comp(nm, rnd.choice([T('BOOLEAN'), T('INTEGER', rng=Range(0, 255))]), optional=True))
    gs.text = spec_text(gs.spec)
    gs.env = Env(gs.spec)
    gs.legal = is_legal(gs.spec)
    gs._compiled = {}
    return True


def run_shard_for(ctx, ID, codec):
    at = common.asn1tools()
    from asn1tools.source import c as cgen_api
    st = ctx.stats
    reach = common.Reach(ctx)
    pr = params(ctx.tier)
    rnd = ctx.rnd
    work = tempfile.mkdtemp(prefix='vf-{}-'.format(ID.lower()))
    try:
        for i in range(pr['modules']):
            if not ctx.time_left():
                break
            key = '{}/{}/{}/{}'.format(ctx.seed, ID, ctx.shard, i)
            gs = GeneratedSpec(key, profile(codec))
            st.inc('modules')
            if not gs.legal:
                continue
            if (ctx.shard + i) % 3 == 0 and add_same_name_defaults(gs):
                st.inc('modules_with_same_name_defaults')
            if codec == 'oer':
                if (ctx.shard + i) % 5 == 0 and pad_additions(gs, 8):
                    st.inc('modules_with_eight_additions')      # presence bitmap boundary (newer versions add the ninth)
                if 'oer-c-extension-addition-length-code' in ctx.active:
                    # known finding (witness re-probed at the start of this run): additions of non-primitive types
                    # do not compile; keep the rest of the module testable by giving such additions a primitive type
                    n = simplify_additions(gs, PRIMITIVE_INLINE)
                    if n:
                        st.inc('carved_out:oer-c-extension-addition-length-code', n)
                else:
                    # a BIT STRING addition is refused by the generator ("Unsupported type"): not generated, for yield
                    simplify_additions(gs, None)
            probe = None
            text = gs.text
            # every 4th module carries one construct outside the documented subset
            if (ctx.shard * pr['modules'] + i) % 4 == 3:
                probe = gs.rnd.choice(PROBES[codec])
                text = text.replace('\nEND', '\n' + probe + '\n\nEND', 1) if text.count('\nEND') == 1 else None
                if text is None:
                    probe = None
                    text = gs.text
            try:
                spec = at.compile_string(text, codec)
            except Exception:
                st.inc('rejected_by_compiler')
                continue
            try:
                header, source, _, _ = cgen_api.generate(spec, codec, 'ns', 'gen.h', 'gen.c', 'fuzz.c')
            except at.Error as e:
                st.inc('generator_rejected_probe' if probe else 'generator_rejected')
                st.inc('generator_rejected:' + str(e).split(': ')[-1][:60])
                if probe is None or text is gs.text:
                    continue
                # the probe construct was refused (as it must be): test the rest of the module without it
                probe = None
                text = gs.text
                try:
                    spec = at.compile_string(text, codec)
                    header, source, _, _ = cgen_api.generate(spec, codec, 'ns', 'gen.h', 'gen.c', 'fuzz.c')
                except Exception:
                    continue
            except Exception as e:
                st.inc('generator_crashed:' + type(e).__name__)
                continue
            if probe:
                st.inc('probe_modules_accepted')
                st.inc('probe_accepted:' + probe.split(' ::=')[0] + ':' + probe[6:46])
            one_module(ctx, ID, codec, at, cgen_api, gs, key, text, spec, header, source, probe, work, pr, rnd)
    finally:
        shutil.rmtree(work, ignore_errors=True)
    reach.close()


def one_module(ctx, ID, codec, at, cgen_api, gs, key, text, spec, header, source, probe, work, pr, rnd):
    st = ctx.stats
    d = tempfile.mkdtemp(prefix='m', dir=work)
    pass
    with open(os.path.join(d, 'gen.h'), 'w') as f:
        f.write(header)
    with open(os.path.join(d, 'gen.c'), 'w') as f:
        f.write(source)
    case0 = {'key': key, 'text': text, 'codec': codec, 'probe': probe}
    ok, warnings, msg = build.syntax_gate(d)
    st.inc('gcc_warnings', warnings)
    if ok is None:
        ctx.inconclusive.append(msg)
        return
    if not ok:
        ctx.violation('generated_c_does_not_compile', case0, {'codec': codec, 'compiler': msg[:600]})
        return
    cm = cmap.CMap(gs.env, codec)
    types = gs.types()
    vg = V.ValueGen(gs.env, gs.rnd, ctx.tier, max_len=12, big_len_p=0.0)
    cases = []
    corpus = []
    valid = []
    for ti, (mod, name, t) in enumerate(types):
        for _ in range(pr['values']):
            v = vg.value(mod, t)
            try:
                enc = bytes(spec.encode(name, v))
            except Exception:
                st.inc('python_encode_failed')
                continue
            try:
                items = cm.top(mod, name, t, v, 'X')
            except cmap.Unmappable as e:
                st.inc('unmappable:' + str(e)[:40])
                continue
            cid = len(cases)
            cases.append({'id': cid, 'ti': ti, 'mode': 'full', 'expected': enc, 'value': v, 'type': name,
                          'items': [(it[0], it[1].replace('X', '(*vp)', 1)) + tuple(it[2:]) for it in items],
                          'items_d': [(it[0], it[1].replace('X', '(*dp)', 1)) + tuple(it[2:]) for it in items]})
            valid.append((ti, enc))
    # probe types: only the struct-independent corpus oracle applies (their layout is undocumented)
    ptypes = []
    probe_valid = []
    if probe:
        pname = probe.split(' ::=')[0]
        ptypes = [(gs.spec.modules[-1], pname, None)]
        for v in PROBE_VALUES.get(pname, []):
            try:
                probe_valid.append((len(types), bytes(spec.encode(pname, v))))
            except Exception:
                st.inc('python_encode_failed')
    # newer-version cases (C10)
    if codec == 'oer' and not probe:
        s2 = evolve_additions(gs.spec, gs.rnd, known_only='oer-c-empty-extension-marker-additions-not-skipped' in ctx.active)
        if s2 is not None and is_legal(s2):
            try:
                spec2 = at.compile_string(spec_text(s2), codec)
            except Exception:
                spec2 = None
            if spec2 is not None:
                env2 = Env(s2)
                vg2 = V.ValueGen(env2, gs.rnd, ctx.tier, max_len=12, big_len_p=0.0)
                from .c07 import project, uses_additions
                for ti, (mod, name, t) in enumerate(types):
                    m2 = [m for m in s2.modules if m.name == mod.name][0]
                    t2 = m2.find(name).t
                    for _ in range(6):
                        v2 = vg2.value(m2, t2)
                        if not uses_additions(gs.env, mod, t, v2):
                            continue
                        try:
                            enc2 = bytes(spec2.encode(name, v2))
                            v1 = project(gs.env, mod, t, v2)
                            items = cm.top(mod, name, t, v1, 'X')
                        except Exception:
                            continue
                        cid = len(cases)
                        cases.append({'id': cid, 'ti': ti, 'mode': 'decode_only', 'expected': enc2, 'value': v2, 'type': name,
                                      'items': [], 'items_d': [(it[0], it[1].replace('X', '(*dp)', 1)) + tuple(it[2:]) for it in items]})
                        st.inc('newer_version_cases')
    if not cases and not valid and not probe_valid:
        return
    # the driver uses `v` for assignments and `d` for checks
    drv_cases = []
    for c in cases:
        drv_cases.append({'id': c['id'], 'ti': c['ti'], 'mode': c['mode'], 'expected': c['expected'], 'items': c['items'], 'items_d': c['items_d']})
    src = build.make_driver(cm, types + ptypes, drv_cases)
    with open(os.path.join(d, 'driver.c'), 'w') as f:
        f.write(src)
    # corpus
    lines = []
    for ti, enc in valid:
        lines.append('V {} {}'.format(ti, enc.hex()))
    for ti, enc in probe_valid:
        lines.append('P {} {}'.format(ti, enc.hex()))
    valid = valid + probe_valid
    for ti, enc in valid:
        for k in range(len(enc)):
            if len(enc) > 48 and 8 < k < len(enc) - 8 and k % 5:
                continue
            lines.append('H {} {}'.format(ti, enc[:k].hex()))
    ntypes = len(types) + len(ptypes)
    for _ in range(pr['hostile']):
        if valid and rnd.random() < 0.8:
            ti, enc = rnd.choice(valid)
            data = mutate(rnd, enc)
            if rnd.random() < 0.2:
                data = mutate(rnd, data)
        else:
            ti = rnd.randrange(ntypes)
            data = bytes(rnd.randrange(256) for _ in range(rnd.choice([0, 1, 2, 3, 5, 8, 16, 40])))
        lines.append('H {} {}'.format(ti, data.hex()))
    cpath = os.path.join(d, 'corpus.txt')
    with open(cpath, 'w') as f:
        f.write('\n'.join(lines) + '\n')
    ok, err = build.build(d)
    if ok is None:
        ctx.inconclusive.append(err)
        return
    if not ok:
        if 'driver.c' in err and 'gen.c:' not in err:
            st.inc('driver_build_failed')
            ctx.inconclusive.append('driver does not compile (harness): ' + err[:600])
        else:
            ctx.violation('generated_c_does_not_compile', case0, {'codec': codec, 'compiler': err[:600]})
        return
    st.inc('programs_built')
    rc, out, err = build.execute(d, cpath)
    res = build.parse_output(rc, out, err)
    done = res['done']
    if done:
        st.inc('cases_run', len(cases))
        st.inc('evaluations', len(cases) + done['corpus'])
        st.inc('encode_comparisons', done['encodes'])
        st.inc('too_small_destinations_tried', done['small'])
        st.inc('decode_comparisons', done['decodes'])
        st.inc('field_checks', done['checks'])
        st.inc('corpus_inputs', done['corpus'])
        st.inc('corpus_valid', done['valid'])
        st.inc('corpus_hostile_accepted', done['accepted'])
    if done is None and not res['sanitizer'] and ('ReserveShadowMemoryRange' in err or 'failed to allocate' in err):
        ctx.inconclusive.append('ASan runtime could not start: ' + err[:200])
        return
    if rc is None:
        # wall-clock watchdog (15 min for a bounded driver): inconclusive, never a verdict
        ctx.inconclusive.append('driver did not finish within 900 s for module {}'.format(key))
        return
    if res['sanitizer'] or (done is None and rc not in (0, 3)):
        st.inc('sanitizer_reports', max(1, len(res['sanitizer'])))
        inp = locate_input(res['death_at'], lines, cases)
        ctx.violation('sanitizer_report', dict(case0, where=res['death_at'], input=inp),
                      {'codec': codec, 'report': (res['sanitizer'] or ['exit code {}'.format(rc)])[0], 'where': res['death_at'],
                       'input': inp, 'stderr_tail': err[-600:] if not res['sanitizer'] else ''})
        return
    seen = set()
    for where, what, extra in res['fails']:
        kind = where.split('#')[0]
        sig = (kind, what)
        if sig in seen:
            continue
        seen.add(sig)
        inp = locate_input(where, lines, cases)
        ctx.violation('c_differs_from_python' if kind == 'case' else 'corpus_oracle', dict(case0, where=where, input=inp),
                      {'codec': codec, 'what': what, 'where': where, 'input': inp, 'detail': extra, 'probe': probe})
    if not res['fails']:
        for c in cases[:40]:
            st.mark((codec, common.type_sig(gs.env, types[c['ti']][0], types[c['ti']][2])[:100], common.value_sig(c['value'])[:50], c['mode']))
        if len(st.samples) < 2 and cases:
            c = cases[0]
            st.sample({'type': c['type'], 'value': repr(c['value'])[:120], 'python_bytes': c['expected'].hex()[:80],
                       'c_encode_equal': True, 'c_decode_fields_equal': True, 'struct_items': [it[1] for it in c['items'][:8]]})


def locate_input(where, lines, cases):
    if not where:
        return None
    try:
        if where.startswith('corpus#'):
            n = int(where.split('#')[1].split('/')[0])
            return lines[n - 1][:300]
        if where.startswith('case#'):
            n = int(where.split('#')[1].split('/')[0])
            c = cases[n]
            return 'type {} value {} bytes {}'.format(c['type'], repr(c['value'])[:200], c['expected'].hex()[:120])
    except Exception:
        pass
    return None


def replay_for(case, ID, codec):
    """Re-generate, re-build and re-run the module of a recorded violation."""
    at = common.asn1tools()
    from asn1tools.source import c as cgen_api

    class Ctx(object):
        pass
    ctx = core.Ctx(ID, 'quick', 0, 0, 1, [])
    gs = GeneratedSpec(case['key'], profile(codec))
    work = tempfile.mkdtemp(prefix='vf-replay-')
    try:
        try:
            spec = at.compile_string(case['text'], codec)
            header, source, _, _ = cgen_api.generate(spec, codec, 'ns', 'gen.h', 'gen.c', 'fuzz.c')
        except Exception:
            return []
        one_module(ctx, ID, codec, at, cgen_api, gs, case['key'], case['text'], spec, header, source, case.get('probe'), work,
                   params('quick'), core.random.Random(1))
    finally:
        shutil.rmtree(work, ignore_errors=True)
    return [v['detail'] for v in ctx.violations]
