"""C19 - encodings do not depend on how the specification text is organised.

Metamorphic oracle: arrangements are produced from my AST by transformations that
preserve meaning by construction (vf/asn/rearrange.py); for every original
top-level type and probe value the bytes (all 8 codecs) and decoded values must be
identical across arrangements.
"""

from ..asn.gen import Profile, is_legal
from ..asn.ast import Env
from ..asn.text import spec_text
from ..asn import values as V
from ..asn import rearrange
from .. import core
from . import common
from .common import GeneratedSpec
from .c18 import outcome

ID = 'C19'
LEVEL = 'exploration'
CODECS = ['ber', 'der', 'per', 'uper', 'oer', 'jer', 'xer', 'gser']
RULE = ('generated modules x arrangements {permute assignments, permute modules, split a module into two with IMPORTS, inline a '
        'random subset of non-recursive same-module references (incl. on OPTIONAL/DEFAULT members), extract inline sub-types into '
        'named types} x probe values x 8 codecs; compared: encoding bytes and decoded values of every original top-level type '
        '(XER byte comparison is skipped when a list element type was inlined/extracted: X.693 names elements after the type); '
        'distinct by (arrangement kind, codec, type shape, module key)')
ASSUMPTIONS = ['arrangements preserve meaning by construction on my AST (same-module inlining only, tags stay at the use site, '
               'no inlining when both the use and the definition carry a tag or a constraint of the same class)',
               'a module that compiles in one arrangement but not in another is reported as a violation kind of its own']
REPORT = ['modules', 'arrangements', 'evaluations', 'byte_comparisons', 'decode_comparisons', 'arrangement:inline_refs',
          'arrangement:extract_types', 'arrangement:split_module', 'arrangement:permute_modules',
          'arrangement:permute_assignments', 'inlined_optional_or_default', 'carved_out']
FLOORS = {'quick': {'arrangements': 300, 'byte_comparisons': 30000},
          'thorough': {'arrangements': 1200, 'byte_comparisons': 120000}}
TIMEOUT = {'quick': 1800, 'thorough': 5400}


def shards(tier):
    return 32 if tier == 'quick' else 64


def params(tier):
    if tier == 'quick':
        return {'modules': 3, 'values': 5}
    return {'modules': 9, 'values': 8}


def profile(tier):
    p = Profile()
    p.p_big_size = 0.0
    p.p_ref = 0.45
    p.p_multi_module = 0.35
    p.p_default = 0.3
    p.p_components_of = 0.15
    p.p_alias = 0.25              # chains of references (A ::= B, B ::= CHOICE ...) that end in another module after a split
    p.constr['CHOICE'] = p.constr.get('CHOICE', 1.0) * 1.5
    p.n_types = (3, 7)
    return p


def same(a, b):
    """Outcome equality: values exactly, errors by class (error texts print internal type objects)."""
    if a is None or b is None:
        return a is b
    if a[0] == 'error' and b[0] == 'error':
        return a[1] == b[1]
    return a == b


def compile_text(at, text, codec):
    try:
        return at.compile_string(text, codec)
    except Exception as e:
        return e


def run_shard(ctx):
    at = common.asn1tools()
    reach = common.Reach(ctx)
    st = ctx.stats
    pr = params(ctx.tier)
    rnd = ctx.rnd
    from .. import carve
    for i in range(pr['modules']):
        if not ctx.time_left():
            break
        key = '{}/{}/{}/{}'.format(ctx.seed, ID, ctx.shard, i)
        gs = GeneratedSpec(key, profile(ctx.tier))
        st.inc('modules')
        if not gs.legal:
            continue
        vg = V.ValueGen(gs.env, gs.rnd, ctx.tier, max_len=24, big_len_p=0.0)
        probes = []
        for mod, name, t in gs.types():
            for _ in range(pr['values']):
                probes.append((mod, name, t, vg.value(mod, t)))
        arrs = []
        avoid = 'recursive-types-across-modules' in ctx.active

        def apply(fn, sp):
            if fn is rearrange.split_module:
                return fn(sp, rnd, avoid_cross_module_cycles=avoid)
            if fn in (rearrange.inline_refs, rearrange.extract_types):
                return fn(sp, rnd, skip_ext_implied='extensibility-implied-not-applied-to-nested-types' in ctx.active)
            return fn(sp, rnd)
        for fn in rearrange.ARRANGERS:
            r = apply(fn, gs.spec)
            if r is None:
                continue
            if not is_legal(r[0]):
                st.inc('arrangement_dropped_illegal_by_my_check')
                continue
            arrs.append(r)
        # a combination of all
        combo = gs.spec
        kinds = []
        for fn in rearrange.ARRANGERS:
            r = apply(fn, combo)
            if r is not None and is_legal(r[0]):
                combo = r[0]
                kinds.append(r[1])
        if len(kinds) > 1:
            arrs.append((combo, 'combined:' + '+'.join(k[:3] for k in kinds)))
        base = {}
        for codec in CODECS:
            spec0 = gs.compiled(codec)
            if isinstance(spec0, Exception):
                st.inc('rejected_by_compiler')
                continue
            res0 = []
            for mod, name, t, v in probes:
                if carve.carved(ID, ctx.active, gs.env, mod, t, v, codec):
                    res0.append(None)
                    st.inc('carved_out')
                    continue
                enc = outcome(lambda: bytes(spec0.encode(name, v, check_constraints=True)))
                dec = None
                if enc[0] == 'value' and codec != 'gser':
                    data = eval(enc[1])
                    dec = outcome(lambda: spec0.decode(name, data))
                res0.append((enc, dec))
            base[codec] = res0
        for arr in arrs:
            aspec, kind = arr[0], arr[1]
            info = arr[2] if len(arr) > 2 else {}
            text = spec_text(aspec)
            st.inc('arrangements')
            st.inc('arrangement:' + kind.split(':')[0])
            for k2, v2 in info.items():
                st.inc(k2, v2)
            names_changed = kind.startswith(('inline', 'extract', 'combined'))
            for codec in CODECS:
                if codec not in base:
                    continue
                spec1 = compile_text(at, text, codec)
                case = {'key': key, 'original': gs.text, 'arrangement': text, 'kind': kind, 'codec': codec}
                if isinstance(spec1, Exception):
                    if isinstance(spec1, at.Error):
                        ctx.violation('arrangement_rejected_by_compiler', case,
                                      {'kind': kind, 'codec': codec, 'error': common.short_exc(spec1)})
                    else:
                        # crash of the compiler on this arrangement (e.g. SET member that became an
                        # untagged recursive reference): no specification, outside the quantifier; counted
                        st.inc('arrangement_compile_crash:' + type(spec1).__name__)
                    continue
                for (mod, name, t, v), r0 in zip(probes, base[codec]):
                    if r0 is None:
                        continue
                    st.inc('evaluations')
                    enc = outcome(lambda: bytes(spec1.encode(name, v, check_constraints=True)))
                    skip_bytes = codec == 'xer' and names_changed
                    if not skip_bytes:
                        st.inc('byte_comparisons')
                        if not same(enc, r0[0]):
                            ctx.violation('bytes_differ_between_arrangements', dict(case, type=name, value=core.jsonable(v)),
                                          {'kind': kind, 'codec': codec, 'type': name, 'original': repr(r0[0])[:260],
                                           'arrangement': repr(enc)[:260]})
                            continue
                    if enc[0] == 'value' and codec != 'gser' and r0[1] is not None:
                        st.inc('decode_comparisons')
                        data = eval(enc[1])
                        dec = outcome(lambda: spec1.decode(name, data))
                        if not same(dec, r0[1]):
                            ctx.violation('decoded_values_differ_between_arrangements',
                                          dict(case, type=name, value=core.jsonable(v)),
                                          {'kind': kind, 'codec': codec, 'type': name, 'original': repr(r0[1])[:260],
                                           'arrangement': repr(dec)[:260]})
                    st.mark((kind.split(':')[0], codec, name, key))
            if len(st.samples) < 3 and len(text) < 1500:
                st.sample({'kind': kind, 'arrangement_text': text[:700]})
    reach.close()


def coverage_extra(agg):
    return {'anchor_reach': common.reach_summary(ID, agg)}


def replay(case):
    at = common.asn1tools()
    a = compile_text(at, case['original'], case['codec'])
    b = compile_text(at, case['arrangement'], case['codec'])
    if isinstance(a, Exception):
        return []
    if isinstance(b, Exception):
        return [{'error': common.short_exc(b)}]
    if 'type' not in case:
        return []
    v = core.unjson(case['value'])
    ea = outcome(lambda: bytes(a.encode(case['type'], v, check_constraints=True)))
    eb = outcome(lambda: bytes(b.encode(case['type'], v, check_constraints=True)))
    if ea != eb and not (case['codec'] == 'xer' and case['kind'].startswith(('inline', 'extract', 'combined'))):
        return [{'original': ea, 'arrangement': eb}]
    if ea[0] == 'value' and case['codec'] != 'gser':
        da = outcome(lambda: a.decode(case['type'], eval(ea[1])))
        db = outcome(lambda: b.decode(case['type'], eval(eb[1])))
        if da != db:
            return [{'original': da, 'arrangement': db}]
    return []
