"""C05 - PER and UPER encodings are bit-exact X.691.

Oracle: vf/models/x691.py, an independent executable model of X.691 driven by my AST,
validated at the start of every run against the X.691 Annex A worked examples
(A.1-A.4, aligned and unaligned).  The library's bytes must equal the model's and
the library's decoder must accept the model's bytes with the same value.
"""

from ..asn.gen import Profile
from ..asn import values as V
from ..models import x691, x690
from .. import core
from . import common
from .common import GeneratedSpec

ID = 'C05'
LEVEL = 'exploration'
PRIMS = ['BOOLEAN', 'INTEGER', 'ENUMERATED', 'NULL', 'BIT STRING', 'OCTET STRING', 'NumericString', 'PrintableString',
         'IA5String', 'VisibleString', 'BMPString', 'UniversalString', 'UTF8String', 'OBJECT IDENTIFIER', 'REAL']
RULE = ('generated modules over the PER-visible kinds with every constraint shape (range widths 1,2,255,256,257,65536,65537,2^32,2^64; '
        'SIZE fixed/variable/extensible; permitted alphabets of 2^k and 2^k+1 characters; extension additions and groups; CHOICE/'
        'ENUMERATED with 1..9 alternatives; non-AUTOMATIC modules with out-of-order tags) x boundary values x {per,uper} x numeric_enums; '
        'compared bit-for-bit with the model, and the library decodes the model bytes; distinct by (codec, type shape, value class)')
ASSUMPTIONS = ['vf/models/x691.py is X.691 (gate: the 8 Annex A vectors must pass or the run is inconclusive)',
               'declared undecided (counted, not compared): aligned variable-size strings of length 0, aligned known-multiplier strings with '
               'aub*b <= 16 (variable) or = 16 (fixed), > 64 additions aligned, structured DEFAULT equal to its default, DEFAULT-valued additions, '
               'time types, SIZE (MIN..MAX)']
REPORT = ['modules', 'modules_with_many_additions', 'evaluations', 'byte_comparisons', 'decode_of_model_bytes', 'model_undecided', 'declared_unsupported',
          'annex_a_vectors_passed', 'not_accepted_by_checks', 'carved_out']
FLOORS = {'quick': {'byte_comparisons': 20000, 'decode_of_model_bytes': 15000},
          'thorough': {'byte_comparisons': 80000, 'decode_of_model_bytes': 60000}}
TIMEOUT = {'quick': 1800, 'thorough': 5400}


def shards(tier):
    return 32 if tier == 'quick' else 64


def params(tier):
    if tier == 'quick':
        return {'modules': 12, 'values': 10}
    return {'modules': 36, 'values': 15}


def profile(tier):
    p = Profile()
    p.only(prims=PRIMS)
    p.prims['INTEGER'] = 4.0
    p.prims['UniversalString'] = 0.25      # any UniversalString carves the whole type out (known finding)
    p.p_range = 0.8
    p.p_size = 0.7
    p.p_alpha = 0.4
    p.p_ext = 0.4
    p.p_cons_ext = 0.25
    p.p_comp_tags = 0.35
    p.p_big_size = 0.03
    if tier == 'thorough':
        p.max_depth = 4
        p.p_big_size = 0.04
    return p


ADDITION_COUNTS = [63, 64, 65, 64, 8, 127]


def many_additions(gs, n):
    """Replace the specification of gs by one module with a SEQUENCE and a SET that have exactly n extension additions."""
    from ..asn.ast import T, Comp, Range, Module, Spec, Assign, Env
    from ..asn.text import spec_text
    from ..asn.gen import is_legal
    rnd = gs.rnd
    m = Module('M', tags='AUTOMATIC')
    for name, kind in (('T0', 'SEQUENCE'), ('T1', 'SET')):
        adds = []
        for j in range(n):
            ct = rnd.choice([T('BOOLEAN'), T('INTEGER', rng=Range(0, 7)), T('OCTET STRING', size=Range(1, 2))])      # no empty encodings (known finding)
            adds.append(Comp('x{}'.format(j), ct, optional=True))
        m.assigns.append(Assign('type', name, T(kind, comps=[Comp('a', T('BOOLEAN')), Comp('b', T('INTEGER', rng=Range(0, 255)), optional=True)],
                                                 ext=adds)))
    gs.spec = Spec([m])
    gs.text = spec_text(gs.spec)
    gs.env = Env(gs.spec)
    gs.legal = is_legal(gs.spec)
    gs._compiled = {}
    gs.has_enum = False


def run_shard(ctx):
    at = common.asn1tools()
    st = ctx.stats
    bad, passed, und = x691.selftest()
    if ctx.shard == 0:
        st.inc('annex_a_vectors_passed', passed)
    if bad or passed != 8:
        ctx.inconclusive.append('X.691 model self-test: ' + '; '.join(bad)[:400])
        return
    reach = common.Reach(ctx)
    pr = params(ctx.tier)
    prof = profile(ctx.tier)
    from .. import carve
    for i in range(pr['modules']):
        if not ctx.time_left():
            break
        key = '{}/{}/{}/{}'.format(ctx.seed, ID, ctx.shard, i)
        gs = GeneratedSpec(key, prof)
        if i == 0 and ctx.shard < len(ADDITION_COUNTS):
            many_additions(gs, ADDITION_COUNTS[ctx.shard])       # normally small length boundary (X.691 10.9.3.4)
            st.inc('modules_with_many_additions')
        st.inc('modules')
        if not gs.legal:
            continue
        vg = V.ValueGen(gs.env, gs.rnd, ctx.tier, big_len_p=0.04 if ctx.tier == 'quick' else 0.02,
                        max_len=200 if ctx.tier == 'quick' else 70000)
        cases = []
        for mod, name, t in gs.types():
            for _ in range(pr['values']):
                cases.append((mod, name, t, vg.value(mod, t)))
        for codec in ('uper', 'per'):
            for numeric in ((False, True) if gs.has_enum and gs.rnd.random() < 0.4 else (False,)):
                spec = gs.compiled(codec, numeric)
                if isinstance(spec, Exception):
                    st.inc('rejected_by_compiler')
                    continue
                model = x691.Per(gs.env, codec == 'per', numeric)
                for mod, name, t, v in cases:
                    key2 = carve.carved(ID, ctx.active, gs.env, mod, t, v, codec)
                    if key2:
                        st.inc('carved_out')
                        st.inc('carved_out:' + key2)
                        continue
                    val = V.to_numeric(gs.env, mod, t, v) if numeric else v
                    st.inc('evaluations')
                    try:
                        spec.types[name].check_types(val)
                        spec.types[name].check_constraints(val)
                    except Exception:
                        st.inc('not_accepted_by_checks')
                        continue
                    try:
                        exp = model.encode(mod, t, val)
                        if exp == b'\x00' and 'per-empty-outermost-encoding' in ctx.active and model.last_bits == 0:
                            st.inc('carved_out')
                            st.inc('carved_out:per-empty-outermost-encoding')
                            continue
                    except x690.Undecided as e:
                        st.inc('model_undecided')
                        st.inc('model_undecided:' + str(e)[:50])
                        continue
                    case = {'key': key, 'text': gs.text, 'type': name, 'codec': codec, 'numeric': numeric, 'value': core.jsonable(v)}
                    try:
                        got = bytes(spec.encode(name, val))
                    except NotImplementedError as e:
                        st.inc('declared_unsupported')
                        st.inc('declared_unsupported:' + str(e)[:40])
                        continue
                    except Exception as e:
                        st.inc('encode_failed')       # C01's business
                        continue
                    st.inc('byte_comparisons')
                    st.inc('codec:' + codec)
                    if got != exp:
                        ctx.violation('bytes_differ_from_x691_model', case,
                                      {'codec': codec, 'at': repr((('',), cause(gs.env, mod, t, val))), 'library': got.hex()[:200],
                                       'model': exp.hex()[:200], 'type_sig': common.type_sig(gs.env, mod, t)[:120]})
                        continue
                    st.inc('decode_of_model_bytes')
                    try:
                        back = spec.decode(name, exp)
                    except Exception as e:
                        ctx.violation('decoder_rejects_x691_encoding', case, {'codec': codec, 'error': common.short_exc(e)})
                        continue
                    if V.canon(gs.env, mod, t, back, numeric) != V.canon(gs.env, mod, t, val, numeric):
                        st.inc('decode_differs')      # C01's business (bytes are equal)
                    if not common.is_trivial_type(gs.env, mod, t):
                        st.mark((codec, common.type_sig(gs.env, mod, t)[:120], common.value_sig(v)[:60]))
                    if len(st.samples) < 3 and 3 < len(got) < 40:
                        st.sample({'codec': codec, 'type': name, 'type_sig': common.type_sig(gs.env, mod, t)[:100],
                                   'value': repr(v)[:100], 'bytes': got.hex(), 'equals_model': True})
    reach.close()


def cause(env, mod, t, v):
    """Coarse guess of the node kinds involved (for grouping reports)."""
    kinds = set()
    try:
        for r, nv, p in V.walk(env, mod, t, v):
            kinds.add(r.base.kind)
    except Exception:
        pass
    if len(kinds) == 1:
        r = env.res(mod, t)
        return list(kinds)[0] + V.common_sig(r)
    return 'mixed'


def coverage_extra(agg):
    return {'anchor_reach': common.reach_summary(ID, agg)}


def replay(case):
    at = common.asn1tools()
    for tier in ('quick', 'thorough'):
        gs = GeneratedSpec(case['key'], profile(tier))
        if gs.text == case['text']:
            break
    else:
        return [{'error': 'cannot regenerate'}]
    spec = gs.compiled(case['codec'], case['numeric'])
    if isinstance(spec, Exception):
        return []
    v = core.unjson(case['value'])
    for mod, name, t in gs.types():
        if name == case['type']:
            val = V.to_numeric(gs.env, mod, t, v) if case['numeric'] else v
            try:
                exp = x691.Per(gs.env, case['codec'] == 'per', case['numeric']).encode(mod, t, val)
            except x690.Undecided:
                return []
            try:
                got = bytes(spec.encode(name, val))
            except Exception as e:
                return []
            if got != exp:
                return [{'library': got.hex(), 'model': exp.hex()}]
            try:
                spec.decode(name, exp)
            except Exception as e:
                return [{'error': common.short_exc(e)}]
    return []
