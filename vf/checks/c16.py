"""C16 - a truncated encoding is reported as a decode error, never as a value.

Oracle: for enc = encode(T, v) (only encodings the decoder itself accepts) and
every strict prefix enc[:k], decode must raise a subclass of asn1tools.DecodeError.
"""

from ..asn.gen import Profile
from ..asn import values as V
from .. import core
from . import common
from .common import GeneratedSpec, BINARY

ID = 'C16'
LEVEL = 'exploration'
RULE = ('generated modules x values as in C01 x {ber,der,per,uper,oer}; every prefix length k when the encoding has '
        '<= 64 octets, else k <= 32, k >= len-32 and 32 random k; distinct by (type shape, codec, encoding length bucket, '
        'relative cut position bucket); non-trivial: the encoding has >= 2 octets')
ASSUMPTIONS = ['only encodings that the library decodes back successfully are truncated (the quantifier is over valid encodings)',
               'decode error = subclass of asn1tools.DecodeError']
REPORT = ['modules', 'cases', 'evaluations', 'prefix_rejected_with_decode_error', 'skipped_not_decodable', 'skipped_not_stable',
          'skipped_unsupported', 'carved_out']
FLOORS = {'quick': {'evaluations': 100000, 'cases': 5000},
          'thorough': {'evaluations': 400000, 'cases': 20000}}
TIMEOUT = {'quick': 1500, 'thorough': 5400}


def shards(tier):
    return 32 if tier == 'quick' else 64


def params(tier):
    if tier == 'quick':
        return {'modules': 6, 'values': 8}
    return {'modules': 18, 'values': 12}


def profile(tier):
    p = Profile()
    p.p_big_size = 0.0
    if tier == 'thorough':
        p.max_depth = 4
    return p


def cuts(rnd, n):
    if n <= 64:
        return list(range(n))
    ks = set(range(33)) | set(range(n - 32, n))
    for _ in range(32):
        ks.add(rnd.randrange(n))
    return sorted(k for k in ks if 0 <= k < n)


def classify_prefix(at, spec, name, data):
    """-> ('ok', None) | ('value', repr) | ('foreign', text) | ('lib_not_decode', text)"""
    try:
        v = spec.decode(name, data)
    except at.DecodeError:
        return 'ok', None
    except at.Error as e:
        return 'lib_not_decode', common.short_exc(e)
    except Exception as e:
        return 'foreign', common.short_exc(e)
    return 'value', repr(v)[:300]


def run_shard(ctx):
    at = common.asn1tools()
    reach = common.Reach(ctx)
    st = ctx.stats
    pr = params(ctx.tier)
    prof = profile(ctx.tier)
    from .. import carve
    for i in range(pr['modules']):
        if not ctx.time_left():
            break
        key = '{}/{}/{}/{}'.format(ctx.seed, ID, ctx.shard, i)
        gs = GeneratedSpec(key, prof)
        st.inc('modules')
        if not gs.legal:
            continue
        vg = V.ValueGen(gs.env, gs.rnd, ctx.tier, max_len=60 if ctx.tier == 'quick' else 400, big_len_p=0.0)
        cases = []
        for mod, name, t in gs.types():
            for _ in range(pr['values']):
                cases.append((mod, name, t, vg.value(mod, t)))
        for codec in BINARY:
            spec = gs.compiled(codec)
            if isinstance(spec, Exception):
                st.inc('rejected_by_compiler')
                continue
            for mod, name, t, v in cases:
                if carve.carved(ID, ctx.active, gs.env, mod, t, v, codec):
                    st.inc('carved_out')
                    continue
                try:
                    enc = spec.encode(name, v, check_constraints=True)
                    back = core.guarded(lambda: spec.decode(name, enc), 20)
                except core.CaseTimeout:
                    # e.g. OER UTF8String (SIZE (n)) with non-ASCII text followed by a list of zero-width elements: two
                    # known findings of C01/C06/C08 combined; a round trip that does not come back is not C16's business
                    st.inc('skipped_roundtrip_does_not_terminate_in_20s')
                    continue
                except NotImplementedError:
                    st.inc('skipped_unsupported')
                    continue
                except Exception:
                    st.inc('skipped_not_decodable')     # C01's business
                    continue
                try:
                    stable = bytes(spec.encode(name, back)) == bytes(enc)
                except Exception:
                    stable = False
                if not stable:
                    # the library does not regard enc as *the* encoding of what it decodes
                    # (C01's business, e.g. trailing octets it ignores): not a "valid encoding"
                    st.inc('skipped_not_stable')
                    continue
                if len(enc) == 0:
                    st.inc('empty_encoding')
                    continue
                st.inc('cases')
                n = len(enc)
                for k in cuts(gs.rnd, n):
                    st.inc('evaluations')
                    st.inc('codec:' + codec)
                    try:
                        res, detail = core.guarded(lambda: classify_prefix(at, spec, name, enc[:k]), 30)
                    except core.CaseTimeout:
                        ctx.inconclusive.append('decode of a prefix did not finish in 30 s (see C08)')
                        continue
                    if res == 'ok':
                        st.inc('prefix_rejected_with_decode_error')
                        if n >= 2:
                            st.mark((common.type_sig(gs.env, mod, t), codec, min(n, 64) // 8, (8 * k) // n))
                        continue
                    case = {'key': key, 'type': name, 'codec': codec, 'value': core.jsonable(v), 'k': k,
                            'encoded': enc.hex(), 'text': gs.text}
                    kind = {'value': 'truncated_prefix_decoded_to_a_value',
                            'foreign': 'foreign_exception_on_truncated_input',
                            'lib_not_decode': 'library_error_that_is_not_a_decode_error'}[res]
                    ctx.violation(kind, case, {'k': k, 'len': n, 'outcome': detail, 'prefix': enc[:k].hex()[:200]})
                if len(st.samples) < 3 and n > 4:
                    st.sample({'type': name, 'codec': codec, 'encoded': enc.hex()[:120], 'prefixes_tried': len(cuts(gs.rnd, n)),
                               'all_rejected_with': 'asn1tools.DecodeError'})
    reach.close()


def coverage_extra(agg):
    return {'anchor_reach': common.reach_summary(ID, agg)}


def replay(case):
    at = common.asn1tools()
    spec = at.compile_string(case['text'], case['codec'])
    enc = bytes.fromhex(case['encoded'])
    res, detail = classify_prefix(at, spec, case['type'], enc[:case['k']])
    return [] if res == 'ok' else [{'outcome': res, 'detail': detail}]
