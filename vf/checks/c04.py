"""C04 - the BER decoder accepts every valid BER re-serialisation with the same meaning.

Metamorphic oracle: the encoder's TLV tree is annotated by a type-directed walk of
my AST and rewritten by my own TLV library (length forms, indefinite lengths,
segmented strings, permuted SETs); each variant is re-parsed by the strict reader
before use; decode(variant) must equal the value that was encoded.
"""

from ..asn.gen import Profile
from ..asn import values as V
from ..models import x690
from .. import core
from . import common
from .common import GeneratedSpec

ID = 'C04'
LEVEL = 'exploration'
RULE = ('generated modules x values x BER; per encoding up to 12 (quick) variants from the rewriter: every constructed node '
        'independently definite-minimal / padded long form (1-4 length octets) / indefinite+EOC, every primitive node optionally '
        'padded, every string or bit string node primitive or split into 1-4 segments nested up to depth 3, every SET permuted; '
        'distinct by (type shape, rewrite-kind set, value class); non-trivial: at least one rewrite kind applied')
ASSUMPTIONS = ['vf/models/x690.py reader/writer (self-tested); variants that do not re-parse are discarded and counted',
               'time types are not segmented (the statement speaks of string and bit-string contents)']
REPORT = ['modules', 'messages', 'evaluations', 'variant:indefinite', 'variant:padded', 'variant:segmented', 'variant:permuted',
          'combination_cells_covered', 'skipped_tree_does_not_match_type', 'carved_out']
FLOORS = {'quick': {'evaluations': 20000, 'variant:indefinite': 3000, 'variant:padded': 3000, 'variant:segmented': 2000, 'variant:permuted': 300},
          'thorough': {'evaluations': 80000, 'variant:indefinite': 12000, 'variant:padded': 12000, 'variant:segmented': 8000, 'variant:permuted': 1200}}
TIMEOUT = {'quick': 1800, 'thorough': 5400}


def shards(tier):
    return 32 if tier == 'quick' else 64


def params(tier):
    if tier == 'quick':
        return {'modules': 6, 'values': 8, 'variants': 12}
    return {'modules': 18, 'values': 12, 'variants': 18}


def profile(tier):
    p = Profile()
    p.p_big_size = 0.0
    p.high_tags = True
    p.p_comp_tags = 0.4
    p.constr = {'SEQUENCE': 3.0, 'SET': 2.5, 'CHOICE': 1.5, 'SEQUENCE OF': 1.2, 'SET OF': 1.0}
    if tier == 'thorough':
        p.max_depth = 4
    return p


def run_shard(ctx):
    at = common.asn1tools()
    bad = x690.selftest()
    if bad:
        ctx.inconclusive.append('x690 model self-test failed: ' + '; '.join(bad)[:300])
        return
    reach = common.Reach(ctx)
    st = ctx.stats
    pr = params(ctx.tier)
    prof = profile(ctx.tier)
    from .. import carve
    cells = set()
    for i in range(pr['modules']):
        if not ctx.time_left():
            break
        key = '{}/{}/{}/{}'.format(ctx.seed, ID, ctx.shard, i)
        gs = GeneratedSpec(key, prof)
        st.inc('modules')
        if not gs.legal:
            continue
        spec = gs.compiled('ber')
        if isinstance(spec, Exception):
            st.inc('rejected_by_compiler')
            continue
        vg = V.ValueGen(gs.env, gs.rnd, ctx.tier, max_len=40, big_len_p=0.0)
        for mod, name, t in gs.types():
            for _ in range(pr['values']):
                v = vg.value(mod, t)
                if carve.carved(ID, ctx.active, gs.env, mod, t, v, 'ber'):
                    st.inc('carved_out')
                    continue
                try:
                    enc = bytes(spec.encode(name, v, check_constraints=True))
                    back = spec.decode(name, enc)
                except Exception:
                    st.inc('skipped_not_roundtripping')          # C01's business
                    continue
                if V.canon(gs.env, mod, t, back) != V.canon(gs.env, mod, t, v):
                    st.inc('skipped_not_roundtripping')
                    continue
                try:
                    tree = x690.parse_all(enc)
                except x690.Malformed:
                    st.inc('skipped_encoder_output_unreadable')
                    continue
                if not x690.annotate(gs.env, mod, t, v, tree,
                                     set_additions_fixed_order='ber-set-permutation-across-extension-additions' in ctx.active):
                    st.inc('skipped_tree_does_not_match_type')
                    continue
                st.inc('messages')
                for _ in range(pr['variants']):
                    data, used = x690.make_variant(gs.rnd, tree)
                    if not used:
                        continue
                    try:
                        x690.parse_all(data)
                    except x690.Malformed:
                        st.inc('variant_discarded_by_strict_reader')
                        continue
                    st.inc('evaluations')
                    for u in used:
                        st.inc('variant:' + u)
                    cell = tuple(sorted(u for u in used if u in ('indefinite', 'padded', 'segmented', 'permuted')))
                    cells.add(cell)
                    case = {'key': key, 'type': name, 'value': core.jsonable(v), 'variant': data.hex(), 'text': gs.text,
                            'original': enc.hex()}
                    try:
                        got = core.guarded(lambda: spec.decode(name, data), 30)
                    except core.CaseTimeout:
                        ctx.inconclusive.append('decode of a variant did not finish in 30 s')
                        continue
                    except Exception as e:
                        ctx.violation('valid_variant_rejected', case,
                                      {'rewrites': sorted(used), 'error': common.short_exc(e), 'variant': data.hex()[:200],
                                       'original': enc.hex()[:200]})
                        continue
                    if V.canon(gs.env, mod, t, got) != V.canon(gs.env, mod, t, v):
                        d = V.first_diff(gs.env, mod, t, v, got)
                        ctx.violation('variant_decodes_to_different_value', case,
                                      {'rewrites': sorted(used), 'at': repr(d), 'variant': data.hex()[:200]})
                        continue
                    st.mark((common.type_sig(gs.env, mod, t)[:120], cell, common.value_sig(v)[:60]))
                    if len(st.samples) < 3 and len(used) >= 2 and len(data) < 120:
                        st.sample({'type': name, 'original': enc.hex(), 'variant': data.hex(), 'rewrites': sorted(used),
                                   'decodes_to_same_value': True})
    for c in cells:
        st.add('cells', '+'.join(c) or 'none')
    reach.close()


def coverage_extra(agg):
    cells = agg['sets'].get('cells', set())
    agg['c']['combination_cells_covered'] = len(cells)
    return {'anchor_reach': common.reach_summary(ID, agg), 'rewrite_combination_cells': sorted(cells)}


def replay(case):
    at = common.asn1tools()
    for tier in ('quick', 'thorough'):
        gs = GeneratedSpec(case['key'], profile(tier))
        if gs.text == case['text']:
            break
    else:
        return [{'error': 'cannot regenerate'}]
    spec = gs.compiled('ber')
    v = core.unjson(case['value'])
    for mod, name, t in gs.types():
        if name == case['type']:
            try:
                got = spec.decode(name, bytes.fromhex(case['variant']))
            except Exception as e:
                return [{'error': common.short_exc(e)}]
            if V.canon(gs.env, mod, t, got) != V.canon(gs.env, mod, t, v):
                return [{'decoded': repr(got)[:300]}]
    return []
