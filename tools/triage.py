"""Run a check's workers and group ALL violations (development aid)."""
import sys, os, json, collections, re
sys.path.insert(0, os.path.dirname(os.path.dirname(os.path.abspath(__file__))))
os.environ['VF_MAXVIOL'] = '100000'
from vf import core, findings
core.setup_path()
import importlib
cid = sys.argv[1].upper()
nsh = int(sys.argv[2]) if len(sys.argv) > 2 else 8
tier = sys.argv[3] if len(sys.argv) > 3 else 'quick'
seed = int(sys.argv[4]) if len(sys.argv) > 4 else 0
mod = importlib.import_module('vf.checks.' + cid.lower())
active, lines = findings.probe_all(cid)
print('\n'.join(lines))
res = core.run_workers(cid, tier, seed, nsh, active, 3000)
agg = core.merge(res)
print('problems', agg['problems'][:5])
print('evaluations', agg['c'].get('evaluations'), 'violations', len(agg['violations']))
groups = collections.defaultdict(list)
for v in agg['violations']:
    d = v['detail']
    at = d.get('at', '')
    m = re.match(r"\(\((.*?)\), '([^']*)'", at)
    leaf = m.group(2) if m else ''
    err = d.get('error', '')
    mm = re.match(r"^(\w+): (?:[\w.\-]+: )?(.*)$", err)
    if mm:
        err = mm.group(1) + ': ' + mm.group(2)
    err = re.sub(r"'[^']*'", "'_'", err)
    err = re.sub(r'[0-9]+', 'N', err)[:70]
    extra = '{}|{}|{}'.format(d.get('corruption', ''), d.get('node_kind', ''), d.get('containers', '')) if 'corruption' in d else ''
    groups[(v['kind'], v['case'].get('codec'), leaf or extra, err)].append(v)
for k, vs in sorted(groups.items(), key=lambda kv: -len(kv[1])):
    print(len(vs), k)
    v = min(vs, key=lambda v: len(json.dumps(v)))
    print('     ', json.dumps(v['detail'], default=repr)[:int(os.environ.get('W','300'))])
    c = dict(v['case']); txt = c.pop('text', '') if not os.environ.get('KEEPTEXT') else ''
    print('     ', json.dumps(c)[:int(os.environ.get('W','300'))])
    if os.environ.get('SHOWTEXT'):
        print(txt)
