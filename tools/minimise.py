"""Minimise model-vs-library mismatches (C05/C06) to the smallest failing sub-node (development aid).
usage: minimise.py C05 <shards> [max cases]"""
import sys, os, json, collections, copy
sys.path.insert(0, os.path.dirname(os.path.dirname(os.path.abspath(__file__))))
from vf import core
core.setup_path()
import importlib
import asn1tools
from vf.checks import common
from vf.asn import values as V
from vf.asn.ast import Assign, Env, all_comps, T
from vf.asn.text import spec_text
from vf.models import x691, x690
cid = sys.argv[1]
mod_ = importlib.import_module('vf.checks.' + cid.lower())
maxc = int(sys.argv[3]) if len(sys.argv) > 3 else 40

def model_for(codec, env, numeric):
    if codec in ('per', 'uper'):
        return x691.Per(env, codec == 'per', numeric)
    from vf.models import x696
    return x696.Oer(env, numeric)

def mismatch(gs, m, t, v, codec, numeric):
    """Does library != model for value v of type t (t written in module m)? -> None/ (lib, model)"""
    spec = copy.deepcopy(gs.spec)
    mm = [x for x in spec.modules if x.name == m.name][0]
    mm.assigns.append(Assign('type', 'Zzprobe', copy.deepcopy(t)))
    text = spec_text(spec)
    env = Env(spec)
    tt = mm.find('Zzprobe').t
    try:
        s = asn1tools.compile_string(text, codec, numeric_enums=numeric)
        got = bytes(s.encode('Zzprobe', v))
    except Exception as e:
        return ('EXC ' + type(e).__name__, None)
    try:
        exp = model_for(codec, env, numeric).encode(mm, tt, v)
    except x690.Undecided:
        return None
    if got != exp:
        if got == b'' and exp == b'\x00':
            return None
        return (got.hex(), exp.hex())
    return None

def children(env, m, t, v):
    r = env.res(m, t)
    b = r.base
    k = b.kind
    out = []
    if k in ('SEQUENCE', 'SET') and isinstance(v, dict):
        for c in all_comps(b):
            if c.name in v:
                out.append((r.mod, c.t, v[c.name]))
    elif k == 'CHOICE':
        for c in all_comps(b):
            if c.name == v[0]:
                out.append((r.mod, c.t, v[1]))
    elif k in ('SEQUENCE OF', 'SET OF'):
        for e in v[:3]:
            out.append((r.mod, b.elem, e))
    return out

groups = collections.Counter(); ex = {}
n = 0
os.environ['VF_MAXVIOL'] = '100000'
from vf import findings
active, _ = findings.probe_all(cid)
res = core.run_workers(cid, 'quick', int(os.environ.get('SEED', '0')), int(sys.argv[2]), active, 3000)
agg = core.merge(res)
print('violations', len(agg['violations']))
import random
random.Random(1).shuffle(agg['violations'])
for viol in agg['violations']:
    case = viol['case']
    n += 1
    if n > maxc:
        break
    gs = None
    for tier in ('quick', 'thorough'):
        g = common.GeneratedSpec(case['key'], mod_.profile(tier))
        if any(nm == case['type'] for _, nm, _ in g.types()):
            gs = g; break
    if gs is None:
        continue
    v = core.unjson(case['value'])
    for m, name, t in gs.types():
        if name == case['type']:
            break
    numeric = case.get('numeric', False)
    codec = case['codec']
    val = V.to_numeric(gs.env, m, t, v) if numeric else v
    cur = (m, t, val)
    while True:
        nxt = None
        for cm, ct, cv in children(gs.env, *cur):
            # the child type must be printable standalone in module cm
            if cm.name != cur[0].name and ct.kind != 'REF':
                pass
            mis = mismatch(gs, cm, ct, cv, codec, numeric)
            if mis is not None and mis[1] is not None:
                nxt = (cm, ct, cv); break
        if nxt is None:
            break
        cur = nxt
    sig = common.type_sig(gs.env, cur[0], cur[1], depth=2)[:90]
    mis = mismatch(gs, cur[0], cur[1], cur[2], codec, numeric)
    key = (codec, sig)
    groups[key] += 1
    if key not in ex:
        ex[key] = (repr(cur[2])[:100], mis, case['key'])
for k, c in groups.most_common(40):
    print(c, k, ex[k])
