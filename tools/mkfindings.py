"""Regenerate findings/<key>.json and KNOWN_FINDINGS from findings/_source.py
(a development tool; its outputs are committed, checks only read them)."""
import sys, os, json, importlib.util, subprocess
ROOT = os.path.dirname(os.path.dirname(os.path.abspath(__file__)))
sys.path.insert(0, ROOT)
from vf import core, findings
spec = importlib.util.spec_from_file_location('src', os.path.join(ROOT, 'findings', '_source.py'))
src = importlib.util.module_from_spec(spec); spec.loader.exec_module(src)
lines = ['# Known findings of /verif (format: see vf/findings.py). Never written at run time.',
         '# known: property=<id> key=<carve-out key> witness=<file> <what fails>',
         '# fixed: property=<id> <commit> <what failed>', '']
bad = 0
for f in src.FINDINGS:
    path = os.path.join(ROOT, 'findings', f['key'] + '.json')
    w = dict(f['witness']); w['key'] = f['key']; w['what'] = f['text']
    with open(path, 'w') as fh:
        json.dump(w, fh, indent=1, sort_keys=True, ensure_ascii=True)
    rep = findings.run_witness(w)
    print('{:55s} reproduces={}'.format(f['key'], rep))
    if not rep:
        bad += 1
    for p in f['props']:
        lines.append('known: property={} key={} witness=findings/{}.json {}'.format(p, f['key'], f['key'], f['text']))
fixed = os.path.join(ROOT, 'findings', '_fixed.txt')
if os.path.exists(fixed):
    lines.append('')
    lines.extend(l.rstrip('\n') for l in open(fixed) if l.strip())
with open(os.path.join(ROOT, 'KNOWN_FINDINGS'), 'w') as fh:
    fh.write('\n'.join(lines) + '\n')
print('witnesses that do NOT reproduce:', bad)
