"""Delta-debug a pair of arrangements (development aid): drop assignments from both texts while the
outputs of the probe still differ."""
import sys, json, re, os
sys.path.insert(0, os.path.dirname(os.path.dirname(os.path.abspath(__file__))))
from vf import core
core.setup_path()
import asn1tools
case = json.load(open(sys.argv[1]))
codec = case['codec']; tname = case['type']; v = core.unjson(case['value'])

def blocks(text):
    return re.split(r'\n\n', text)

def out(text):
    try:
        s = asn1tools.compile_string(text, codec)
        e = s.encode(tname, v)
        try:
            d = repr(s.decode(tname, e))
        except Exception as ex:
            d = 'ERR ' + type(ex).__name__
        return (bytes(e), d)
    except Exception as ex:
        return ('EXC', type(ex).__name__)

def differ(a, b):
    oa, ob = out(a), out(b)
    return oa[0] != 'EXC' and ob[0] != 'EXC' and oa != ob

a, b = case['original'], case['arrangement']
assert differ(a, b), (out(a), out(b))
ba, bb = blocks(a), blocks(b)
changed = True
while changed:
    changed = False
    for blk in list(ba):
        m = re.match(r'\s*([A-Z][\w-]*) ::=', blk)
        if not m or m.group(1) == tname:
            continue
        na = [x for x in ba if x is not blk]
        nb = [x for x in bb if not re.match(r'\s*' + re.escape(m.group(1)) + r' ::=', x)]
        ta, tb = '\n\n'.join(na), '\n\n'.join(nb)
        # also drop the name from IMPORTS lists
        name = m.group(1)
        ta2 = re.sub(r'\b' + re.escape(name) + r',\s*', '', ta); tb2 = re.sub(r'\b' + re.escape(name) + r',\s*', '', tb)
        ta2 = re.sub(r',\s*' + re.escape(name) + r'(\s+FROM)', r'\1', ta2); tb2 = re.sub(r',\s*' + re.escape(name) + r'(\s+FROM)', r'\1', tb2)
        if differ(ta2, tb2):
            ba, bb = blocks(ta2), blocks(tb2); changed = True; break
print('\n\n'.join(ba)); print('=========='); print('\n\n'.join(bb)); print(out('\n\n'.join(ba))); print(out('\n\n'.join(bb)))
