#!/bin/sh
# usage: tools/tri.sh C03 [shards] [tier] [seed]  -> compact triage summary (never prints long blobs)
cd /verif
W=${W:-260} timeout 1500 /venv/bin/python tools/triage.py "$@" 2>&1 | grep -v "^WARNING" > /tmp/tri_$1.txt
grep -E "^[0-9]+ \(|^evalu|^problems" /tmp/tri_$1.txt | cut -c1-220 | head -${N:-25}
