"""usage: cerr.py C10 <key> -> generated C error lines with source context"""
import sys, os, tempfile, subprocess, re
sys.path.insert(0, os.path.dirname(os.path.dirname(os.path.abspath(__file__))))
from vf import core
core.setup_path()
import asn1tools
from asn1tools.source import c as capi
from vf.checks import cshared, common
cid, key = sys.argv[1], sys.argv[2]
codec = 'uper' if cid == 'C09' else 'oer'
gs = common.GeneratedSpec(key, cshared.profile(codec))
spec = asn1tools.compile_string(gs.text, codec)
h, s, _, _ = capi.generate(spec, codec, 'ns', 'gen.h', 'gen.c', 'f.c')
d = tempfile.mkdtemp()
open(d + '/gen.h', 'w').write(h); open(d + '/gen.c', 'w').write(s)
p = subprocess.run(['gcc', '-std=c99', '-c', 'gen.c', '-o', '/dev/null'], cwd=d, capture_output=True)
src = s.splitlines()
seen = 0
for l in p.stderr.decode().splitlines():
    m = re.match(r'gen.c:(\d+):\d+: error: (.*)', l)
    if m and seen < 3:
        seen += 1
        n = int(m.group(1))
        print('ERROR', m.group(2)[:150]); print('\n'.join('   ' + x[:170] for x in src[n - 3:n + 1]))
        # which function
        for k in range(n, 0, -1):
            if src[k].startswith('static') or src[k].startswith('ssize_t'):
                print('   in', src[k][:100]); break
if len(sys.argv) > 3:
    print(gs.text)
