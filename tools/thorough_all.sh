#!/bin/sh
# usage: tools/thorough_all.sh <seed> <checks...>  (development aid) -> /tmp/thorough_<seed>.log
cd /verif
seed=$1; shift
for c in "$@"; do
  s=$(date +%s)
  out=$(VERIF_SEED=$seed VERIF_TIER=thorough ./check $c 2>&1 | grep -v "^WARNING")
  e=$(date +%s)
  echo "$c seed=$seed $((e-s))s :: $(echo "$out" | grep -E "^OK|^VIOLATION|^INCONCLUSIVE" | head -4 | cut -c1-260 | tr '\n' ' ')" >> /tmp/thorough_$seed.log
  echo "$out" | grep -A1 "^VIOLATION" | head -12 | cut -c1-900 > /tmp/thorough_${seed}_$c.txt
done
echo ALLDONE >> /tmp/thorough_$seed.log
