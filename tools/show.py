import sys, os
sys.path.insert(0, os.path.dirname(os.path.dirname(os.path.abspath(__file__))))
from vf import core
core.setup_path()
import importlib
cid, key = sys.argv[1], sys.argv[2]
mod = importlib.import_module('vf.checks.' + cid.lower())
from vf.checks.common import GeneratedSpec
gs = GeneratedSpec(key, mod.profile(sys.argv[3] if len(sys.argv) > 3 else 'quick'))
print(gs.text)
