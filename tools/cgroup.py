import json,glob,collections,sys
pid=sys.argv[1]
c=collections.Counter(); ex={}
for f in glob.glob('/verif/replays/%s-*.json'%pid):
    d=json.load(open(f)); det=d['detail']
    what=det.get('what') or det.get('report') or det.get('compiler','')[:150]
    if what.startswith('d.'): what='field differs after decode'
    k=(d['kind'],what[:110],det.get('probe') and det['probe'][:40])
    c[k]+=1; ex.setdefault(k,(d['case']['key'],(det.get('input') or '')[:160],det.get('detail'),det.get('where')))
for k,n in c.most_common(40): print(n,k); print('    ',ex[k])
