"""Write MANIFEST.json from the table below (development tool)."""
import json, os, sys
ROOT = os.path.dirname(os.path.dirname(os.path.abspath(__file__)))
props = [json.loads(l) for l in open(os.path.join(ROOT, 'properties.jsonl'))]

CHECKS = {
    'C01': dict(
        category='exploration', design_ref='DESIGN.md 4 C01',
        technique='runtime monitoring: round-trip oracle with abstract equality from an independent AST over generated specifications',
        text='Runtime monitor at the Specification boundary: every generated (module, type, value, codec, numeric_enums) execution of '
             'encode/decode/re-encode is compared with the value the generator itself produced, under the abstract equality the property '
             'states (DEFAULT, SET OF multiset, named bits), computed from my own AST. Held on the executions observed; sampling, not proof.',
        note='Trusts my generator/printer/equality (vf/asn), CPython; modules the compiler rejects and NotImplementedError are counted, '
             'known findings are carved out only while their probe reproduces (KNOWN_FINDINGS).'),
    'C16': dict(
        category='exploration', design_ref='DESIGN.md 4 C16',
        technique='runtime monitoring: exception-class oracle over every byte prefix of library-produced encodings',
        text='Every strict prefix of encodings produced by the real encoder (5 binary codecs, generated modules and values) is fed to the real '
             'decoder; the monitor classifies the outcome (decode error / value / foreign exception / other library error). Held on the prefixes '
             'observed (about 10^6 per quick run).',
        note='Only encodings the library itself decodes and re-encodes identically count as valid encodings; trusts the generator.'),
    'C15': dict(
        category='exploration', design_ref='DESIGN.md 4 C15',
        technique='runtime monitoring: reference-model oracle (independent X.690 TLV reader) for message extent, all header prefixes',
        text='decode_with_length and decode_length of the real library are compared with the message extent computed by my own TLV reader, for '
             'messages with multi-octet identifiers and long-form lengths, every prefix length through the header and sampled lengths beyond, '
             'and four kinds of trailing bytes.',
        note='Trusts vf/models/x690.py (self-tested on X.690 worked examples at start-up; failure => inconclusive).'),
    'C08': dict(
        category='exploration', design_ref='DESIGN.md 4 C08',
        technique='runtime monitoring: sys.monitoring step-budget monitor aborting the decode, RLIMIT_AS, sentinel re-decode after every hostile input',
        text='Hostile inputs (mutated valid encodings, tampered lengths/tags/counts, random strings <= 4 KiB) are decoded by the 7 real decoders '
             'under a logical step budget counted in interpreter line events inside asn1tools; exceeding the budget aborts the call from the '
             'monitor callback and is a violation; after every input a sentinel valid message is decoded on the same Specification object and '
             'compared with its earlier result. Bounded-progress restatement of "always terminates"; no wall-clock verdicts.',
        note='Work done in C (json, ElementTree, int parsing) is not counted; memory bound is RLIMIT_AS 3 GiB; zero-width list element types '
             'form their own class with a larger per-octet budget (DESIGN C08).'),
    'C18': dict(
        category='exploration', design_ref='DESIGN.md 4 C18',
        technique='runtime monitoring: per-operation comparison with a fresh-specification oracle over recorded sequential and multi-threaded histories with sys.monitoring yield injection',
        text='Histories of mixed succeeding/failing encode/decode calls on one shared Specification, sequentially and from 2-8 threads with thread '
             'switches forced inside asn1tools code by a LINE-event callback; every outcome is compared with the outcome of the same call made '
             'alone on a freshly compiled Specification, and input objects are compared with deep copies taken before the call. The number of '
             'switches observed inside asn1tools and distinct interleaving signatures are reported.',
        note='Operations are pure functions of their arguments, so per-operation equality is the linearizability condition; CPython GIL '
             'scheduling limits which interleavings are reachable.'),
    'C13': dict(
        category='exploration', design_ref='DESIGN.md 4 C13',
        technique='runtime monitoring: metamorphic oracle (n-th compile of a mutated-in-place dictionary vs fresh parse) over recorded compile histories, plus a plain-data invariant walk',
        text='Random histories of up to 6 compile_dict / pformat-eval / deepcopy steps over all 8 codecs and numeric_enums are executed on one parsed '
             'dictionary; the codec object produced last is compared, on a battery of valid and corrupted probe values, with compile_string of the '
             'original text. All 256 ordered (codec, option) pairs are covered per quick run. An invariant monitor walks the parse output for '
             'non-plain objects and checks pformat/eval reproduction.',
        note='Behaviour = bytes, decoded reprs, error class+text on the probe battery; trusts the generator.'),
    'C17': dict(
        category='fault_enumeration', design_ref='DESIGN.md 4 C17',
        technique='fault injection: strace SIGKILL injection at every write-side syscall of a cache population, file damage, and call histories, each followed by a cached-vs-uncached behavioural comparison',
        text='Every k-th pwrite64/fdatasync/ftruncate/unlink/mkdir issued while a child process populates the cache (first population, second key, '
             're-population after a file change) is turned into a SIGKILL by strace; a reader then compiles with the same directory and must '
             'behave like the uncached compile or raise. Plus histories of compile_files calls varying files/codec/options over one directory, '
             'and truncation / bit-flip / zeroed-page damage of the cache files.',
        note='Crash model = every prefix of the writer syscall sequence (page cache survives SIGKILL), not torn writes or power loss; '
             'behaviour compared on a probe battery from my AST.'),
    'C14': dict(
        category='exploration', design_ref='DESIGN.md 4 C14',
        technique='runtime monitoring: metamorphic oracle over token-preserving re-layouts (own X.680 scanner, every layout re-scanned) and error-position comparison with a comment-free twin',
        text='Fixture files and generated modules are re-laid-out with random white-space/comment separators between the same lexical items; '
             'parse_string must accept and return the identical dictionary; texts with one injected syntax error must blame the same place of the '
             'token sequence in every layout and report the same line as the layout with comments blanked.',
        note='Trusts my scanner (layouts that do not re-scan to the same tokens are discarded); multi-word keyword gaps are a known finding.'),
    'C19': dict(
        category='exploration', design_ref='DESIGN.md 4 C19',
        technique='runtime monitoring: metamorphic oracle across meaning-preserving AST rearrangements (permute, split+IMPORTS, inline, extract) for 8 codecs',
        text='Arrangements are derived from my AST by transformations that preserve meaning by construction; the bytes and decoded values of every '
             'original top-level type are compared between the original and each arrangement for all codecs.',
        note='Same-module inlining only, tags stay at the use site; compiler crashes (non-asn1tools exceptions) on an arrangement are counted, '
             'library CompileError is a violation.'),
    'C03': dict(
        category='exploration', design_ref='DESIGN.md 4 C03',
        technique='runtime monitoring: reference-model oracle (independent X.690 DER encoder from my AST + independent TLV reader) and equal-value metamorphic checks',
        text='Every DER encoding produced by the library for generated modules/values is compared byte-for-byte with my own DER encoder (tagging '
             'incl. AUTOMATIC/IMPLICIT/EXPLICIT and CHOICE, canonical SET/SET OF order, DEFAULT omission, minimal lengths/integers/tags, REAL, '
             'named bits), re-read by my TLV parser, and re-encoded from abstractly equal spellings of the same value.',
        note='Trusts vf/models/x690.py (X.690 worked-example self-test gates the run); undecided cases are counted and skipped.'),
    'C04': dict(
        category='exploration', design_ref='DESIGN.md 4 C04',
        technique='runtime monitoring: metamorphic oracle over BER re-serialisations written by an independent TLV library from a type-directed annotation of the encoder output',
        text='The encoder TLV tree is annotated from my AST (which nodes are strings, bit strings, SETs) and rewritten: per node definite/padded/'
             'indefinite length, strings segmented up to depth 3, SETs permuted, in all 15 non-empty combinations; every variant is re-parsed by '
             'my strict reader and must decode to the encoded value.',
        note='Variants come from my writer only (the 2^4 combination table is reported); time types are not segmented.'),
    'C05': dict(
        category='exploration', design_ref='DESIGN.md 4 C05',
        technique='runtime monitoring: reference-model oracle (independent executable X.691 PER/UPER model from my AST, gated by the 8 Annex A vectors) compared bit-for-bit, and the library decoder run on the model bytes',
        text='Every PER and UPER encoding produced by the library for generated modules/values (all constraint shapes, extension additions and groups, '
             'CHOICE/ENUMERATED index ordering, numeric_enums) is compared byte-for-byte with vf/models/x691.py; the library must also decode the model bytes.',
        note='Trusts vf/models/x691.py (Annex A.1-A.4 aligned+unaligned gate the run); cases the model declares undecided are counted and skipped; '
             'seven mechanisms where the library differs from X.691 are known findings.'),
    'C06': dict(
        category='exploration', design_ref='DESIGN.md 4 C06',
        technique='runtime monitoring: reference-model oracle (independent executable X.696 Basic OER model from my AST, gated by 56 hand-derived vectors) compared byte-for-byte, and the library decoder run on the model octets',
        text='Every OER encoding produced by the library for generated modules/values (integer width thresholds, ENUMERATED forms, REAL binary32/64, '
             'fixed/variable sizes, preambles, extension bitmaps and open types, CHOICE tag octets incl. high tag numbers, numeric_enums) is compared '
             'with vf/models/x696.py; the library must also decode the model octets to the same value.',
        note='Trusts vf/models/x696.py (canonical form; the sender options DEFAULT-present are accepted); cases the model declares undecided are '
             'counted and skipped; six mechanisms where the library differs from X.696 are known findings.'),
    'C07': dict(
        category='exploration', design_ref='DESIGN.md 4 C07',
        technique='runtime monitoring: reference oracle (projection of the version-2 value onto the version-1 AST) over generated version pairs, 7 decoders, both directions',
        text='V2 specifications are derived from generated V1 specifications by 1-5 legal extension steps at random extensible nodes; V2 encodings are '
             'decoded under V1 and compared with the projection computed on my ASTs (unknown additions dropped, unknown alternative/item absent, following '
             'components intact), V1 encodings are decoded under V2 and compared with the value.',
        note='Cases whose own-version round trip fails are C01 business and skipped (counted); V2 is re-checked for tag distinctness by my tag computation.'),
    'C09': dict(
        category='exploration', design_ref='DESIGN.md 4 C09/C10',
        technique='runtime monitoring + compiler sanitizers: generated C built with clang AddressSanitizer+UndefinedBehaviorSanitizer (-fno-sanitize-recover=all) and a driver generated from my AST; Python UPER codec as reference oracle',
        text='For generated modules in the documented UPER C subset the generated source must compile as C99 (gcc gate); value -> struct -> encode '
             'must equal the Python bytes, every smaller destination must be refused, Python bytes -> decode must reproduce every field; truncated, '
             'mutated and random inputs run from exact-size heap blocks under ASan+UBSan, accepted inputs must re-encode/re-decode identically; '
             'constructs outside the subset must be refused or translated faithfully.',
        note='Struct members are addressed by the documented naming conventions; intra-struct overflows are only seen through the field comparison.'),
    'C10': dict(
        category='exploration', design_ref='DESIGN.md 4 C09/C10',
        technique='runtime monitoring + compiler sanitizers: generated C built with clang AddressSanitizer+UndefinedBehaviorSanitizer (-fno-sanitize-recover=all) and a driver generated from my AST; Python OER codec as reference oracle; newer-version encodings decoded by older generated C',
        text='As C09 for the OER generator (plus REAL binary32/64 and SEQUENCE extension additions with presence flags); in addition encodings of a '
             'version-2 specification (version 1 plus unknown additions) produced by the Python codec must be decoded by the C generated from version 1: '
             'consumed completely, known members equal, unknown additions skipped, no sanitizer report.',
        note='Struct members are addressed by the documented naming conventions; intra-struct overflows are only seen through the field comparison.'),
    'C11': dict(
        category='exploration', design_ref='DESIGN.md 4 C11',
        technique='runtime monitoring: reference-model oracle (independent constraint interpreter on my AST) with single-node perturbations at, inside and outside every bound',
        text='Valid values (incl. both bounds and out-of-root values of extensible constraints) must pass check_constraints; a value with exactly one '
             'node pushed just outside one interpreted constraint (range, SIZE, FROM; bounds literal / MIN / MAX / named number / value reference; '
             'through type references) must raise ConstraintsError on encode and on decode of bytes produced with checking off.',
        note='Trusts vf/models/constraints.py; named-bit BIT STRING sizes and inherent alphabets are not probed (DESIGN C11).'),
    'C12': dict(
        category='exploration', design_ref='DESIGN.md 4 C12',
        technique='runtime monitoring: exception-class and error-path oracle computed from my AST over single-component corruptions, 8 codecs',
        text='Each valid value is corrupted in one component (wrong Python type, unknown CHOICE alternative, unknown ENUMERATED value, missing mandatory '
             'member, constraint violation); encode with checks must raise EncodeError/ConstraintsError whose text starts with the dotted path to that '
             'component as computed from my AST; well-typed base values must pass the type check.',
        note='A type-name hop inserted for recursive types is forgiven; base values that a codec cannot encode are skipped for that codec.'),
    'C02': dict(
        category='exploration', design_ref='DESIGN.md 4 C02',
        technique='runtime monitoring: two-reader oracle (independent strict JSON / expat + type-directed JER / BASIC-XER readers, and the library decoder) over generated values, 4 indent settings',
        text='Every JER/XER document the library emits for generated values (markup-significant strings, REALs of all magnitudes and infinities, lists of '
             'value-form elements) is parsed by an independent reader driven by my AST and by the library decoder; both must give back the value, REALs '
             'compared by IEEE bit pattern.',
        note='JSON strictness = Python json with constants, duplicate names and lone surrogates rejected; XML = expat; time types only by library round trip.'),
    'C20': dict(
        category='exploration', design_ref='DESIGN.md 4 C20',
        technique='runtime monitoring: independent RFC 3641 reader (type-directed by my AST) reads every emitted text back; collision table for injectivity',
        text='Each GSER text (compact and indented) is consumed completely by my RFC 3641 reader and must yield the encoded value; texts of different '
             'values of a type are checked for collisions.',
        note='The reader is lenient about white-space between tokens, strict about tokens; NaN (no GSER form) may be refused by the encoder.'),
}

NOT_YET = 'check under construction in this revision (DESIGN.md section 4); not claimed yet'

m = {
    'version': 1,
    'setup_cmd': 'true',
    'hooks': {
        'guard': 'ASN1TOOLS_VERIF',
        'enable': 'no repository hooks are needed: monitors attach from the harness (sys.monitoring callbacks on asn1tools code '
                  'objects, wrappers at the public API, strace fault injection, compiler sanitizers on generated C)',
        'baseline_off_cmd': 'cd /repo && /venv/bin/python -m pytest -ra -q -p no:cacheprovider --timeout=900 --continue-on-collection-errors',
        'source_commits': [],
        'add_only': True,
    },
    'engines': [{'name': 'vf', 'path': 'vf/', 'serves_properties': sorted(CHECKS),
                 'kind_free_text': 'python harness: spec/value generators, reference models, sys.monitoring monitors, subprocess shard runner'}],
    'checks': [],
    'not_applicable': [],
    'notes': 'exit codes: 0 held on everything explored, 1 VIOLATION, 2 INCONCLUSIVE (monitor not reached / watchdog); '
             'known findings: KNOWN_FINDINGS + findings/*.json',
}
for p in props:
    pid = p['id']
    if pid in CHECKS:
        c = CHECKS[pid]
        m['checks'].append({
            'property_id': pid,
            'quick_cmd': './check {} --tier quick'.format(pid),
            'thorough_cmd': './check {} --tier thorough'.format(pid),
            'evidence_file': 'evidence/{}.json'.format(pid),
            'replay_cmd_template': './check {} --replay {{path}}'.format(pid),
            'engine': 'vf',
            'level_claimed': {'category': c['category'], 'text': c['text'], 'design_ref': c['design_ref']},
            'level_note': c['note'],
            'technique': c['technique'],
        })
    else:
        m['not_applicable'].append({'property_id': pid, 'reason': NOT_YET})
json.dump(m, open(os.path.join(ROOT, 'MANIFEST.json'), 'w'), indent=1)
print('checks:', [c['property_id'] for c in m['checks']])
