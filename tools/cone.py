"""usage: cone.py C09 <key> [keepdir]  -> build and run one module, print driver output/stderr"""
import sys, os, tempfile
sys.path.insert(0, os.path.dirname(os.path.dirname(os.path.abspath(__file__))))
from vf import core
core.setup_path()
import asn1tools
from asn1tools.source import c as capi
from vf.checks import cshared, common
cid, key = sys.argv[1], sys.argv[2]
codec = 'uper' if cid == 'C09' else 'oer'
ctx = core.Ctx(cid, 'quick', 0, 0, 1, [])
gs = common.GeneratedSpec(key, cshared.profile(codec))
text = gs.text
if len(sys.argv) > 4:
    text = open(sys.argv[4]).read()
spec = asn1tools.compile_string(text, codec)
h, s, _, _ = capi.generate(spec, codec, 'ns', 'gen.h', 'gen.c', 'f.c')
work = sys.argv[3] if len(sys.argv) > 3 and sys.argv[3] != '-' else tempfile.mkdtemp(prefix='cone-')
os.makedirs(work, exist_ok=True)
import random
cshared.one_module(ctx, cid, codec, asn1tools, capi, gs, key, text, spec, h, s, None, work, cshared.params('quick'), random.Random(1))
print('workdir', work)
for v in ctx.violations[:int(os.environ.get('N', '6'))]:
    print(v['kind'], str(v['detail'])[:1500])
print(ctx.inconclusive[:2])
