#!/bin/sh
# usage: tools/harvest.sh <id> [suffix]   copies an agent's seeded change from /tmp/wt/<id> to /verif/seeded/<id>-agent and removes the worktree
id=$1; sfx=${2:-agent}; d=/verif/seeded/$id-$sfx; mkdir -p $d
cd /tmp/wt/$id || exit 2
git diff -- asn1tools > $d/patch.diff
cp _seed/demo.py _seed/meta.json $d/ 2>/dev/null
wc -l $d/patch.diff
cd /; git -C /repo worktree remove --force /tmp/wt/$id
