"""usage: ctri.py C09 [shards] [seed]  -> all violations of a C check grouped by (kind, what)"""
import sys, os, json, collections
sys.path.insert(0, os.path.dirname(os.path.dirname(os.path.abspath(__file__))))
os.environ['VF_MAXVIOL'] = '100000'
from vf import core, findings
core.setup_path()
cid = sys.argv[1]; n = int(sys.argv[2]) if len(sys.argv) > 2 else 32; seed = int(sys.argv[3]) if len(sys.argv) > 3 else 0
active, _ = findings.probe_all(cid)
res = core.run_workers(cid, 'quick', seed, n, active, 3000)
agg = core.merge(res)
print('problems', agg['problems'][:3], 'inconclusive', agg['inconclusive'][:3])
c = collections.Counter(); ex = {}; mods = collections.defaultdict(set)
for v in agg['violations']:
    det = v['detail']
    what = det.get('what') or det.get('report') or det.get('compiler', '')[:200]
    if what.startswith('d.'):
        what = 'field differs after decode'
    k = (v['kind'], what[:150], (det.get('probe') or '')[:50])
    c[k] += 1; mods[k].add(v['case']['key'])
    ex.setdefault(k, (v['case']['key'], (det.get('input') or '')[:200], det.get('detail'), det.get('where')))
print(list(agg.keys()))
for k, n_ in c.most_common(60):
    print(n_, 'in', len(mods[k]), 'modules', k); print('     ', ex[k])
