#!/bin/sh
# usage: tools/seedcheck.sh <worktree> <seed-id> <check ids...>
# Confirms a seeded change (demo fails with it / passes without, suite unchanged) and runs the given checks against it.
WT=$1; SID=$2; shift; shift
cd $WT || exit 2
echo "== demo with change";  /venv/bin/python _seed/demo.py > /tmp/seed_demo_with.txt 2>&1; echo "exit=$?"; tail -2 /tmp/seed_demo_with.txt | cut -c1-200
git diff -- asn1tools > /tmp/seed_patch.diff
git apply -R /tmp/seed_patch.diff || exit 3
echo "== demo without change"; /venv/bin/python _seed/demo.py > /tmp/seed_demo_without.txt 2>&1; echo "exit=$?"; tail -1 /tmp/seed_demo_without.txt | cut -c1-200
git apply /tmp/seed_patch.diff || exit 4
echo "== test suite with change"
/venv/bin/python -m pytest -q -p no:cacheprovider --timeout=900 --continue-on-collection-errors tests 2>&1 | tail -1
mkdir -p /verif/seeded/$SID
cp /tmp/seed_patch.diff /verif/seeded/$SID/patch.diff
cp _seed/demo.py /verif/seeded/$SID/demo.py
cp _seed/meta.json /verif/seeded/$SID/meta.json 2>/dev/null
cd /verif
for c in "$@"; do
  echo "== check $c against the change"
  ASN1TOOLS_SRC=$WT ./check $c > /tmp/seed_check_$c.txt 2>&1; rc=$?
  echo "exit=$rc  $(grep -c '^VIOLATION' /tmp/seed_check_$c.txt) VIOLATION lines"; grep -A1 '^VIOLATION' /tmp/seed_check_$c.txt | head -4 | cut -c1-300
done
