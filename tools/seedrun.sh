#!/bin/sh
# usage: tools/seedrun.sh <seeded-id> <check ids...>
# Applies /verif/seeded/<id>/patch.diff to a fresh scratch worktree of /repo HEAD (outside /repo and /verif),
# confirms the demo (fails with the change, passes without), runs the given checks against it with
# ASN1TOOLS_SRC, then removes the worktree.  SUITE=1 also runs the repository's test suite with the change.
SID=$1; shift
WT=/tmp/wtrun_$SID
git -C /repo worktree remove --force $WT 2>/dev/null
git -C /repo worktree add -q --detach $WT HEAD || exit 2
cd $WT
mkdir -p _seed; cp /verif/seeded/$SID/demo.py _seed/demo.py
sed -i "s#/tmp/wt/[A-Za-z0-9_]*#$WT#g" _seed/demo.py
echo "== demo without change: $(/venv/bin/python _seed/demo.py > /tmp/seed_demo0.txt 2>&1; echo exit=$?) $(tail -1 /tmp/seed_demo0.txt | cut -c1-120)"
git apply /verif/seeded/$SID/patch.diff || { echo "PATCH DOES NOT APPLY"; cd /; git -C /repo worktree remove --force $WT; exit 3; }
echo "== demo with change:    $(/venv/bin/python _seed/demo.py > /tmp/seed_demo1.txt 2>&1; echo exit=$?) $(tail -1 /tmp/seed_demo1.txt | cut -c1-160)"
if [ -n "$SUITE" ]; then
  echo "== suite with change: $(/venv/bin/python -m pytest -q -p no:cacheprovider --timeout=900 --continue-on-collection-errors tests 2>&1 | tail -1)"
fi
cd /verif
for c in "$@"; do
  ASN1TOOLS_SRC=$WT ./check $c > /tmp/seed_check_${SID}_$c.txt 2>&1; rc=$?
  echo "== check $c: exit=$rc, $(grep -c '^VIOLATION' /tmp/seed_check_${SID}_$c.txt) VIOLATION lines; $(grep '^INCONCLUSIVE' /tmp/seed_check_${SID}_$c.txt | head -1 | cut -c1-200)"
done
git -C /repo worktree remove --force $WT
