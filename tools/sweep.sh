#!/bin/sh
# usage: tools/sweep.sh "<seeds>" <checks...>   (development aid: summary line per run)
cd /verif
seeds="$1"; shift
for c in "$@"; do for s in $seeds; do
  out=$(VERIF_SEED=$s ./check $c 2>&1 | grep -v "^WARNING")
  rc=$?
  echo "$c seed=$s: $(echo "$out" | grep -E "tier=" | sed 's/.*evaluations=/evals=/') :: $(echo "$out" | grep -E "^OK|^VIOLATION|^INCONCLUSIVE" | head -3 | cut -c1-150 | tr '\n' ' ')"
done; done
