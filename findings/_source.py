"""Source of the known findings: tools/mkfindings.py turns this list into
findings/<key>.json witnesses and the KNOWN_FINDINGS lines (both committed;
nothing here is written at check run time)."""

HDR = 'M DEFINITIONS AUTOMATIC TAGS ::= BEGIN\n'
HDRX = 'M DEFINITIONS ::= BEGIN\n'
END = '\nEND\n'


def T(x):
    return {'__tuple__': list(x)}


def B(h):
    return {'__bytes__': h}


FINDINGS = [
    dict(key='per-size-max-extensible', props=['C01'],
         text='PER/UPER: an extensible constraint with a MIN/MAX end point, e.g. INTEGER (MIN..5, ...) value 5 or '
              'BIT STRING (SIZE (4..MAX, ...)), raises TypeError in encode (per.py compares an int with the string MAX / None)',
         witness=dict(kind='roundtrip', spec=HDR + 'A ::= INTEGER (MIN..5, ...)' + END, codec='uper', type='A', value=5)),
    dict(key='per-named-bits-junk', props=['C01'],
         text='PER/UPER named-bit BIT STRING: bits of the buffer beyond the declared bit count are treated as significant, '
              "(b'\\x9f', 1) of BIT STRING { a(0) } decodes as 8 bits (per.py rstrip_zeros ignores number_of_bits)",
         witness=dict(kind='roundtrip', spec=HDR + 'A ::= BIT STRING { a(0) }' + END, codec='uper', type='A',
                      value=T([B('9f'), 1]), expected=T([B('80'), 1]))),
    dict(key='oer-utf8string-fixed-size-octets', props=['C01', 'C06'],
         text="OER UTF8String (SIZE (3)) is written as 3 octets without a length determinant: 'åäö' (6 octets) cannot be "
              'decoded (oer.py KnownMultiplierStringType used for UTF8String)',
         witness=dict(kind='roundtrip', spec=HDR + 'A ::= UTF8String (SIZE (3))' + END, codec='oer', type='A',
                      value='åäö')),
    dict(key='ber-extensible-choice-member-swallows-next', props=['C01'],
         text='BER/DER: an untagged extensible CHOICE that is an OPTIONAL member of a SEQUENCE (or any member of a SET) takes the '
              "TLV of the following member for an unknown extension alternative: SEQUENCE { c CHOICE { x [0] INTEGER, ... } OPTIONAL, f BIT STRING } "
              "value {f} fails to decode (ber.py:1215-1225)",
         witness=dict(kind='roundtrip', spec=HDRX + 'A ::= SEQUENCE { c CHOICE { x [0] INTEGER, ... } OPTIONAL, f BIT STRING }' + END,
                      codec='ber', type='A', value={'f': T([B(''), 0])})),
    dict(key='ber-sequence-same-tag-members-misassigned', props=['C01'],
         text='BER/DER SEQUENCE with an OPTIONAL root member and an extension addition of the same tag, separated by a mandatory member '
              '(legal): when the root member is absent the order-insensitive member loop assigns the addition TLV to it, SEQUENCE { y SEQUENCE '
              '{ a INTEGER } OPTIONAL, b BOOLEAN, ..., id SEQUENCE OF BOOLEAN OPTIONAL } value {b, id} fails to decode (ber.py:787-823)',
         witness=dict(kind='roundtrip', spec=HDRX + 'A ::= SEQUENCE { y SEQUENCE { a INTEGER } OPTIONAL, b BOOLEAN, ..., id SEQUENCE OF BOOLEAN OPTIONAL }' + END,
                      codec='ber', type='A', value={'b': True, 'id': [True]})),
    dict(key='oer-choice-with-untagged-choice-alternative', props=['C01', 'C19'],
         text='OER CHOICE whose alternative is an untagged CHOICE: CHOICE { c CHOICE { d VisibleString, f TeletexString }, e INTEGER } '
              "value ('c', ('f', '')) raises TypeError in encode (member.tag is None, oer.py:956)",
         witness=dict(kind='roundtrip', spec=HDRX + 'A ::= CHOICE { c CHOICE { d VisibleString, f TeletexString }, e INTEGER }' + END,
                      codec='oer', type='A', value=T(['c', T(['f', ''])]))),
    dict(key='oer-choice-alternative-recursive-reference', props=['C01', 'C19'],
         text="OER CHOICE alternative that is an untagged recursive type reference: A ::= SEQUENCE OF CHOICE { a INTEGER, b B }  "
              "B ::= SEQUENCE OF CHOICE { s GeneralString, d A } value [('b', [('d', [])])] raises TypeError in encode (Recursive has no tag, oer.py:1235-1249)",
         witness=dict(kind='roundtrip', spec=HDRX + 'A ::= SEQUENCE OF CHOICE { a INTEGER, b B } B ::= SEQUENCE OF CHOICE { s GeneralString, d A }' + END,
                      codec='oer', type='A', value=[T(['b', [T(['d', []])]])])),
    dict(key='per-addition-group-all-zero-bits-dropped', props=['C01', 'C05'],
         text='PER/UPER: an extension addition group whose encoding is all zero bits is treated as absent, '
              'SEQUENCE { x BOOLEAN, ..., [[ d INTEGER (0), v BOOLEAN OPTIONAL ]] } value {x, d 0} loses d (per.py:793-798)',
         witness=dict(kind='roundtrip', spec=HDR + 'A ::= SEQUENCE { x BOOLEAN, ..., [[ d INTEGER (0), v BOOLEAN OPTIONAL ]] }' + END,
                      codec='uper', type='A', value={'x': True, 'd': 0})),
    dict(key='oer-list-of-zero-width-elements-huge-quantity', props=['C08'],
         text='OER SEQUENCE OF NULL (any zero-width element): a 5 octet input 04 ff ff ff ff announces 2^32 elements and the decoder '
              'loops over all of them (no element consumes input, nothing bounds the quantity, oer.py:541-549)',
         witness=dict(kind='decode_steps', spec=HDR + 'A ::= SEQUENCE OF NULL' + END, codec='oer', type='A',
                      data_hex='04ffffffff', zero_width=True)),
    dict(key='parser-multiword-keyword-separator', props=['C14'],
         text='the words of multi-word keywords (OCTET STRING, BIT STRING, OBJECT IDENTIFIER, WITH COMPONENTS, COMPONENTS OF, EXTENSIBILITY IMPLIED, ...) '
              'must be separated by exactly one space: "A ::= OCTET  STRING", a newline, a tab or a comment between the words is rejected '
              '(pyparsing Keyword literals containing a space, parser.py:870-928)',
         witness=dict(kind='custom', name='multiword_keyword')),
    dict(key='size-constraint-on-type-reference-ignored', props=['C19', 'C05', 'C06'],
         text='a SIZE constraint written on a type reference is ignored by PER/UPER/OER when the reference is a SEQUENCE OF element '
              '(or the referenced type is a BIT STRING / SEQUENCE OF): B ::= BIT STRING  A ::= SEQUENCE OF B (SIZE (1..2)) encodes the '
              'element with an unconstrained length (01 02 80) while SEQUENCE OF BIT STRING (SIZE (1..2)) gives 01 c0 in UPER '
              '(compiler.py:900-903 only applies set_size_range to members, most types do not implement it)',
         witness=dict(kind='encode_expect', spec=HDR + 'B ::= BIT STRING A ::= SEQUENCE OF B (SIZE (1..2))' + END, codec='uper', type='A',
                      value=[T([B('80'), 2])], expected_hex='01c0')),
    dict(key='recursive-types-across-modules', props=['C19'],
         text='mutually recursive types that live in two modules importing each other do not compile (KeyError in Compiler.process, '
              'compiler.py:239-243 looks the recursive type up in the wrong module), while the same definitions in one module do: moving a '
              'definition into another module and importing it changes the outcome',
         witness=dict(kind='custom', name='recursive_across_modules')),
    dict(key='extensibility-implied-not-applied-to-nested-types', props=['C19', 'C05', 'C06'],
         text='EXTENSIBILITY IMPLIED is only applied to SEQUENCE/SET/CHOICE types reached through members, not to one written as the element '
              'of a SEQUENCE OF / SET OF: with EXTENSIBILITY IMPLIED, T ::= CHOICE { a BOOLEAN }  A ::= SEQUENCE OF T encodes [(a, TRUE)] as '
              '01 40 (extension bit present) but A ::= SEQUENCE OF CHOICE { a BOOLEAN } as 01 80 in UPER (compiler.py:317-334)',
         witness=dict(kind='encode_expect', spec='M DEFINITIONS AUTOMATIC TAGS EXTENSIBILITY IMPLIED ::= BEGIN A ::= SEQUENCE OF CHOICE { a BOOLEAN }' + END,
                      codec='uper', type='A', value=[T(['a', True])], expected_hex='0140')),
    dict(key='ber-nested-choice-recursive-alternative-loses-level', props=['C01', 'C19'],
         text='BER/DER: a CHOICE with an untagged CHOICE alternative whose own alternative closes a recursion cycle decodes to the inner '
              "alternative without the outer level, depending on the order of the assignments: X ::= SEQUENCE { a A }  A ::= SET { b [0] CHOICE "
              "{ v BOOLEAN, f C } }  C ::= CHOICE { n [0] IMPLICIT X, m [1] NULL }: {b: (f, (n, {a: {b: (v, TRUE)}}))} decodes as {b: (n, ...)}; "
              "with C written first it round-trips (ber.py:1168-1184 registers the recursive member in the outer CHOICE)",
         witness=dict(kind='roundtrip', spec='M DEFINITIONS EXPLICIT TAGS ::= BEGIN X ::= SEQUENCE { a A } A ::= SET { b [0] CHOICE { v BOOLEAN, f C } } '
                                             'C ::= CHOICE { n [0] IMPLICIT X, m [1] NULL }' + END,
                      codec='ber', type='A', value={'b': T(['f', T(['n', {'a': {'b': T(['v', True])}}])])})),
    dict(key='der-set-extension-additions-not-in-tag-order', props=['C03'],
         text='DER SET with extension additions: only the root components are sorted by tag, the additions are appended in declaration order: '
              'SET { item SET { }, ..., flag INTEGER OPTIONAL } value {item {}, flag 256} gives 31 06 31 00 02 02 01 00, X.690 10.3 requires '
              '31 06 02 02 01 00 31 00 (ber.py:698-708 encodes root members, then additions)',
         witness=dict(kind='encode_expect', spec=HDRX + 'A ::= SET { item SET { }, ..., flag INTEGER OPTIONAL }' + END, codec='der', type='A',
                      value={'item': {}, 'flag': 256}, expected_hex='3106020201003100')),
    dict(key='ber-set-permutation-across-extension-additions', props=['C04'],
         text='BER SET with extension additions: the decoder accepts any order among the root components and among the additions, but not an '
              'addition placed before a root component: SET { a [0] INTEGER, ..., b [1] BOOLEAN OPTIONAL } encoded as 31 06 81 01 ff 80 01 05 '
              '(b before a) is rejected (ber.py:755-760 decodes root members and additions in two passes)',
         witness=dict(kind='decode_expect', spec=HDR + 'A ::= SET { a [0] INTEGER, ..., b [1] BOOLEAN OPTIONAL }' + END, codec='ber', type='A',
                      data_hex='31068101ff800105', expected={'a': 5, 'b': True})),
    dict(key='constraints-check-ignores-size-on-referenced-element', props=['C11', 'C12'],
         text='check_constraints ignores a SIZE constraint written on a type reference that is not a SEQUENCE/SET/CHOICE member: B ::= OCTET STRING  '
              'A ::= SEQUENCE OF B (SIZE (1..2)), value [3 octets] is encoded without ConstraintsError (compiler.py:900-903 applies set_size_range '
              'to members only)',
         witness=dict(kind='encode_must_reject', spec=HDR + 'B ::= OCTET STRING A ::= SEQUENCE OF B (SIZE (1..2))' + END, codec='ber', type='A',
                      value=[B('000000')])),
    dict(key='error-path-drops-repeated-member-name', props=['C12'],
         text="the error path loses a level when a member and its parent member have the same name and are the same compiled object "
              "(recursive or shared types): A ::= SEQUENCE { n A OPTIONAL, d OCTET STRING (SIZE (3)) } value {n: {n: {d: 2 octets}, d: ..}, d: ..} "
              "reports 'A.n.d' instead of 'A.n.n.d' (ErrorWithLocation.add_location skips an element equal to the last one, codecs/__init__.py:63-72)",
         witness=dict(kind='custom', name='error_path_repeated_name')),
    dict(key='xer-carriage-return-not-escaped', props=['C02'],
         text="XER: a carriage return (legal in XML 1.0) inside a character string is written raw instead of as &#13;, and XML line-end "
              "normalisation turns it into a line feed: IA5String 'a\\rb' decodes as 'a\\nb' (ElementTree does not escape CR in text)",
         witness=dict(kind='roundtrip', spec=HDR + 'A ::= IA5String' + END, codec='xer', type='A', value='a\rb')),
    dict(key='per-empty-outermost-encoding', props=['C05'],
         text='PER/UPER: a value whose complete encoding is empty (top-level NULL, INTEGER (5), OCTET STRING (SIZE (0)), one-item ENUMERATED) is '
              'returned as zero octets; X.691 10.1.3 requires a single zero octet',
         witness=dict(kind='encode_expect', spec=HDR + 'A ::= NULL' + END, codec='uper', type='A', value=None, expected_hex='00')),
    dict(key='per-semi-constrained-integer-encoded-as-unconstrained', props=['C05'],
         text='PER/UPER INTEGER (lb..MAX) is encoded as an unconstrained whole number instead of a semi-constrained one: INTEGER (-5..MAX) value 0 '
              'gives 01 00, X.691 12.2.3/10.7 gives 01 05 (per.py:1018-1022 ignores the bounds when either is MIN/MAX)',
         witness=dict(kind='encode_expect', spec=HDR + 'A ::= INTEGER (-5..MAX)' + END, codec='uper', type='A', value=0, expected_hex='0105')),
    dict(key='per-universalstring-not-known-multiplier', props=['C05'],
         text='PER/UPER UniversalString is encoded as an unconstrained string: SIZE and FROM constraints are ignored, UniversalString (SIZE (2)) '
              "value 'ab' carries a length octet (02 00000061 00000062 instead of 00000061 00000062)",
         witness=dict(kind='encode_expect', spec=HDR + 'A ::= UniversalString (SIZE (2))' + END, codec='uper', type='A', value='ab',
                      expected_hex='0000006100000062')),
    dict(key='per-permitted-alphabet-index-used-where-value-fits', props=['C05'],
         text='PER/UPER known-multiplier string with FROM whose largest character value fits in b bits: X.691 30.5.4 encodes the character value, '
              "the library its index: VisibleString (FROM (\" \"..\"~\")) value 'A' gives 01 42 (index 33) instead of 01 82 (value 65) in UPER",
         witness=dict(kind='encode_expect', spec=HDR + 'A ::= VisibleString (FROM (" ".."~"))' + END, codec='uper', type='A', value='A',
                      expected_hex='0182')),
    dict(key='per-aligned-numericstring-from-indexes-full-alphabet', props=['C05'],
         text="aligned PER NumericString (FROM (\"0\"..\"9\")): characters are indexed in the full NumericString alphabet (space first) "
              "instead of the permitted alphabet: '7' gives 01 80 (index 8) instead of 01 70 (index 7) (per.py:577-578)",
         witness=dict(kind='encode_expect', spec=HDR + 'A ::= NumericString (FROM ("0".."9"))' + END, codec='per', type='A', value='7',
                      expected_hex='0170')),
    dict(key='per-choice-index-in-declaration-order', props=['C05'],
         text='PER/UPER CHOICE index follows the declaration order of the alternatives; X.691 23.2 indexes them in canonical tag order: '
              'CHOICE { b INTEGER (0..3), a BOOLEAN } (no AUTOMATIC TAGS) value (a, TRUE) gives c0 (index 1), the standard 40 (BOOLEAN has the '
              'smaller tag: index 0) (per.py:1530-1540)',
         witness=dict(kind='encode_expect', spec=HDRX + 'A ::= CHOICE { b INTEGER (0..3), a BOOLEAN }' + END, codec='uper', type='A',
                      value=T(['a', True]), expected_hex='40')),
    dict(key='per-open-type-with-empty-content', props=['C05'],
         text='PER/UPER: an extension addition whose own encoding is empty (NULL, empty SEQUENCE) is wrapped as an open type of length 0; X.691 10.2/11.2 '
              'require the encoding of an open type to be at least one (zero) octet: SEQUENCE { a BOOLEAN, ..., n NULL } value {a TRUE, n NULL} gives '
              'c0 40 00 instead of c0 40 01 00 (the repository tests pin the deviating bytes)',
         witness=dict(kind='encode_expect', spec=HDR + 'A ::= SEQUENCE { a BOOLEAN, ..., n NULL }' + END, codec='uper', type='A',
                      value={'a': True, 'n': None}, expected_hex='c0400100')),
    dict(key='oer-addition-group-members-are-separate-additions', props=['C06'],
         text='OER: the members of an extension addition group get one presence bit and one open type each; X.696 16 treats a group as ONE '
              'extension addition encoded as a SEQUENCE: SEQUENCE { a BOOLEAN, ..., [[ b NULL, c BOOLEAN OPTIONAL ]], d NULL } value '
              '{a TRUE, b NULL} gives 80 ff 02 05 80 00 (3 bits: b, c, d) instead of 80 ff 02 06 80 01 00 (2 bits; the group is the SEQUENCE 00)',
         witness=dict(kind='encode_expect', spec=HDR + 'A ::= SEQUENCE { a BOOLEAN, ..., [[ b NULL, c BOOLEAN OPTIONAL ]], d NULL }' + END,
                      codec='oer', type='A', value={'a': True, 'b': None}, expected_hex='80ff0206800100')),
    dict(key='oer-c-extension-addition-length-code', props=['C10'],
         text='generated OER C: the expression that computes the length of an extension addition is only right for primitive inline types; '
              'an addition whose type is a reference to an ENUMERATED type (e E gives enumerated_value_length((int32_t)src_p->e), e is a struct), '
              'a SEQUENCE OF with variable-size elements (src_p->l..length), a CHOICE or structured type does not compile '
              '(source/c/oer.py get_encoded_*_lengths); the generator neither refuses these specifications nor emits valid C',
         witness=dict(kind='custom', name='oer_c_addition_length_code')),
    dict(key='oer-c-empty-extension-marker-additions-not-skipped', props=['C10'],
         text='generated OER C: the decoder of a SEQUENCE with an extension marker and no known additions (SEQUENCE { a BOOLEAN, ... }) reads the '
              'extension bit but does not skip the additions of a newer version: 80 ff 02 07 80 01 05 returns 2 instead of 7, so members that follow '
              'such a SEQUENCE are read from the addition octets (source/c/oer.py format_sequence_inner only emits addition code when additions are known)',
         witness=dict(kind='custom', name='oer_c_empty_marker_not_skipped')),
    dict(key='der-sequence-second-root-list-before-additions', props=['C03'],
         text='BER/DER SEQUENCE with components after the second extension marker: the second root list is encoded before the extension additions; '
              'X.690 8.9.2 / 10 require the order of the definition: SEQUENCE { a BOOLEAN, ..., b NULL, ..., c BOOLEAN } (AUTOMATIC TAGS) value '
              '{a TRUE, b NULL, c FALSE} gives 30 08 8001ff 820100 8100 instead of 30 08 8001ff 8100 820100 (ber.py compile_members collects both '
              'root lists in one list and encode_content appends the additions)',
         witness=dict(kind='encode_expect', spec=HDR + 'A ::= SEQUENCE { a BOOLEAN, ..., b NULL, ..., c BOOLEAN }' + END, codec='der', type='A',
                      value={'a': True, 'b': None, 'c': False}, expected_hex='30088001ff8100820100')),
    dict(key='automatic-tags-second-root-list-numbered-after-additions', props=['C03'],
         text='AUTOMATIC TAGS with components after the second extension marker: tags are numbered in textual order (additions before the second '
              'root list); X.680 24.7-24.9 tag the extension root (both lists) first and the additions after it: SEQUENCE { a BOOLEAN, ..., b NULL, ..., '
              'c BOOLEAN } value {a TRUE, c FALSE} gives 30 06 8001ff 820100 (c = [2]) instead of 30 06 8001ff 810100 (c = [1], b = [2])',
         witness=dict(kind='encode_expect', spec=HDR + 'A ::= SEQUENCE { a BOOLEAN, ..., b NULL, ..., c BOOLEAN }' + END, codec='der', type='A',
                      value={'a': True, 'c': False}, expected_hex='30068001ff810100')),
    dict(key='ber-unknown-alternative-of-nested-untagged-extensible-choice', props=['C07'],
         text='BER/DER: an untagged extensible CHOICE that is itself an alternative of another CHOICE: an alternative added to the inner CHOICE '
              'by a newer version is rejected by the older decoder with DecodeTagError instead of being reported as an unknown alternative: '
              'A ::= CHOICE { a BOOLEAN, c CHOICE { x [0] INTEGER, ... } } (EXPLICIT TAGS) does not decode a1 02 05 00, while the inner CHOICE '
              'alone gives (None, None) (ber.py Choice.decode only knows the tags of the known inner alternatives)',
         witness=dict(kind='decode_expect', spec='M DEFINITIONS EXPLICIT TAGS ::= BEGIN A ::= CHOICE { a BOOLEAN, c CHOICE { x [0] INTEGER, ... } }' + END,
                      codec='ber', type='A', data_hex='a1020500', expected=T(['c', T([None, None])]))),
    dict(key='xer-list-of-alias-of-recursive-type-recursion-error', props=['C19', 'C01', 'C02'],
         text='XER: a SEQUENCE OF / SET OF whose element type is a type assignment that is only a reference (T5 ::= T4, T4 ::= T1) leading back to '
              'the enclosing type: T1 ::= SEQUENCE { id SET OF T5 OPTIONAL, k BOOLEAN }  T4 ::= T1  T5 ::= T4  value {k TRUE, id {{k FALSE}}} raises '
              'RecursionError in encode (the placeholder of the recursive element resolves to itself); with T4 and T5 written before T1 the same value '
              'encodes, so the outcome depends on the order of the assignments',
         witness=dict(kind='roundtrip', spec=HDR + 'T1 ::= SEQUENCE { id SET OF T5 OPTIONAL, k BOOLEAN } T4 ::= T1 T5 ::= T4' + END, codec='xer',
                      type='T1', value={'k': True, 'id': [{'k': False}]})),
    dict(key='ber-choice-alternatives-of-one-recursive-type', props=['C19'],
         text='BER/DER: CHOICE { b INTEGER, y7 T0, item [2] IMPLICIT T0 } where T0 ::= [6] IMPLICIT SEQUENCE is recursive through T6 ::= [5] T1 and '
              'T3 ::= T0 is a further reference to it (IMPLICIT TAGS): the same octets decode to (y7, ...) or (item, ...) at the inner level depending on '
              'the order of the four assignments (T0 T1 T3 T6 vs T1 T3 T6 T0); witness texts and value in findings/data/ber-choice-alternatives-of-one-recursive-type.json',
         witness=dict(kind='custom', name='ber_choice_alternatives_of_one_recursive_type')),
    dict(key='ber-retagged-reference-to-recursive-explicit-type', props=['C01'],
         text='BER/DER: T4 ::= [4] EXPLICIT SEQUENCE { flag7 CHOICE { ..., b9 T1 }, ... } is recursive through T1, and T1 refers to it as '
              'a [6] T4 inside x [3] CHOICE (IMPLICIT TAGS): the decoder rejects the encoder output with "T4.flag7.b9.x.a.T4: Expected '
              'SEQUENCE(T4) with tag 30, but got 80" (before the repair of the shared placeholder of recursive types the same value decoded '
              'to another value); witness text and value in findings/data/ber-retagged-reference-to-recursive-explicit-type.json',
         witness=dict(kind='custom', name='ber_retagged_reference_to_recursive_explicit_type')),
    dict(key='implicit-tag-over-tagged-reference-to-choice-made-explicit', props=['C03'],
         text='a tag that is IMPLICIT by the module default or by AUTOMATIC TAGS on a reference to a *tagged* type whose base is a CHOICE '
              '(T2 ::= [APPLICATION 11] T0, T0 ::= CHOICE { flag NULL }) is applied as an EXPLICIT tag: SEQUENCE { n T2 } (AUTOMATIC TAGS) value '
              '{n flag:NULL} gives 30 06 a0 04 6b 02 80 00; X.680 31.2.7 makes a tag explicit only over an untagged CHOICE, so [0] replaces '
              '[APPLICATION 11]: 30 04 a0 02 80 00 (which the library itself produces for n [0] IMPLICIT T2)',
         witness=dict(kind='encode_expect', spec=HDR + 'T0 ::= CHOICE { flag NULL } T2 ::= [APPLICATION 11] T0 A ::= SEQUENCE { n T2 }' + END, codec='der',
                      type='A', value={'n': T(['flag', None])}, expected_hex='3004a0028000')),
]
